#!/usr/bin/env python3
"""Regenerates MANIFEST.json from symx/registry.py (single source of truth)."""
import json, sys, os
sys.path.insert(0, os.path.dirname(os.path.abspath(__file__)))
from symx.registry import REGISTRY, NOT_APPLICABLE
props = [json.loads(l) for l in open("properties.jsonl")]
checks = []
for p in props:
    pid = p["id"]
    if pid not in REGISTRY:
        continue
    e = REGISTRY[pid]
    checks.append({
        "property_id": pid,
        "quick_cmd": "./check %s quick" % pid,
        "thorough_cmd": "./check %s thorough" % pid,
        "evidence_file": "evidence/%s.json" % pid,
        "replay_cmd_template": "./check replay {path}",
        "engine": "symx",
        "level_claimed": {"category": e.get("level", "model_checking"), "text": e["text"], "design_ref": e.get("design_ref", "DESIGN.md section 3 / " + pid)},
        "level_note": e["note"],
        "technique": e.get("technique", "bounded symbolic execution of the real Python code (CrossHair StateSpace driven to path exhaustion, z3 decides every branch on symbolic inputs), counterexamples replayed on plain CPython"),
    })
na = [{"property_id": p["id"], "reason": NOT_APPLICABLE.get(p["id"], "no check built yet")} for p in props if p["id"] not in REGISTRY]
m = {
    "version": 1,
    "setup_cmd": "./setup.sh",
    "hooks": {"guard": "ANYIO_VERIF", "enable": "none needed: the harnesses read private attributes of the real objects directly; no hook commits exist", "baseline_off_cmd": "cd /repo && /venv/bin/python -m pytest -ra -q -p no:cacheprovider --timeout=900 --continue-on-collection-errors", "source_commits": [], "add_only": True},
    "engines": [{"name": "symx", "path": "symx/", "serves_properties": [c["property_id"] for c in checks], "kind_free_text": "own path-exhaustion driver over CrossHair 0.0.110's StateSpace (symbolic execution of CPython bytecode, z3 5.1), real asyncio BaseEventLoop on a virtual symbolic clock (VLoop), coverage certificates cross-checked with z3 and cvc5"}],
    "checks": checks,
    "not_applicable": na,
    "notes": "All checks run the code in /repo/src as it stands (PYTHONPATH, no bytecode cache). asyncio backend only (trio is not installed). Exit 3 = harness error (never a pass).",
}
json.dump(m, open("MANIFEST.json", "w"), indent=1)
print("checks:", [c["property_id"] for c in checks], "n/a:", [x["property_id"] for x in na])
