#!/bin/bash
# Offline: overlay venv on /venv (repo deps) + crosshair-tool/z3 from the local wheelhouse.
set -e
cd "$(dirname "$0")"
if [ -x .venv/bin/python ] && .venv/bin/python -c "import crosshair, z3" 2>/dev/null; then
  echo "venv ok"; exit 0
fi
rm -rf .venv
/venv/bin/python -m venv .venv
SP=$(.venv/bin/python -c "import sysconfig; print(sysconfig.get_paths()['purelib'])")
echo "import site; site.addsitedir('/venv/lib/python3.12/site-packages')" > "$SP/zz_venv_overlay.pth"
PIP_NO_INDEX=1 .venv/bin/pip install -q --no-index --find-links /opt/veriftools/wheels crosshair-tool
.venv/bin/python -c "import crosshair, z3, anyio; print('venv built', z3.get_version_string())"
