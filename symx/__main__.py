"""CLI:  python -m symx <Cxx> quick|thorough      run the check of one property
         python -m symx replay <file>               re-run one stored counterexample
         python -m symx list                        registered properties / harnesses

Exit status: 0 held on everything explored (KNOWN-FINDING lines allowed), 1 violation
(``VIOLATION property=<id> replay=<path>``), 3 harness error (non-reproducing
counterexample, vacuous witness, worker crash, engine/concrete disagreement).
"""
from __future__ import annotations

import importlib
import json
import os
import random
import shutil
import subprocess
import sys
import time

HERE = os.path.dirname(os.path.abspath(__file__))
VERIF = os.path.dirname(HERE)
NPROC = int(os.environ.get("SYMX_NPROC", str(os.cpu_count() or 4)))


def registry() -> dict:
    from .registry import REGISTRY

    return REGISTRY


def load_known() -> list[dict]:
    p = os.path.join(VERIF, "known_findings.json")
    if not os.path.exists(p):
        return []
    with open(p) as f:
        return json.load(f).get("findings", [])


def match_known(known: list[dict], prop: str, harness: str, clause: str, inputs: dict, params: dict):
    for k in known:
        if k.get("status") != "open" or k.get("property") != prop:
            continue
        if k.get("harness") not in (None, harness):
            continue
        if k.get("clause") != clause:
            continue
        want = k.get("where", {})
        merged = dict(params)
        merged.update(inputs)
        if all(merged.get(a) == b for a, b in want.items()):
            return k
    return None


def run_units(jobs: list[dict], tier: str, seed: int, env: dict) -> list[dict]:
    """jobs: dicts with module, unit, budget_s.  Runs up to NPROC workers at a time."""
    work = os.path.join(VERIF, ".work", "%d-%d" % (os.getpid(), int(time.time())))
    os.makedirs(work, exist_ok=True)
    pending = list(enumerate(jobs))
    running: list[tuple] = []
    results: dict[int, dict] = {}
    py = sys.executable
    try:
        while pending or running:
            while pending and len(running) < NPROC:
                idx, j = pending.pop(0)
                out = os.path.join(work, "%d.json" % idx)
                log = open(os.path.join(work, "%d.log" % idx), "w")
                p = subprocess.Popen(
                    [py, "-m", "symx.worker", j["module"], j["unit"], tier, str(seed), out],
                    cwd=VERIF,
                    env=env,
                    stdout=log,
                    stderr=subprocess.STDOUT,
                )
                limit = j.get("budget_s", 60) * 1.6 + j.get("per_path_s", 20) + 45
                running.append((idx, j, p, out, log, time.time() + limit))
            time.sleep(0.05)
            still = []
            for idx, j, p, out, log, deadline in running:
                rc = p.poll()
                if rc is None and time.time() < deadline:
                    still.append((idx, j, p, out, log, deadline))
                    continue
                if rc is None:
                    p.kill()
                    p.wait()
                log.close()
                if os.path.exists(out):
                    with open(out) as f:
                        r = json.load(f)
                else:
                    with open(log.name) as f:
                        tail = f.read()[-2000:]
                    r = {
                        "unit": j["unit"],
                        "module": j["module"],
                        "ok": False,
                        "error": ("wall-clock cap hit\n" if rc is None else "worker exit %s\n" % rc) + tail,
                    }
                r["harness"] = j["harness"]
                results[idx] = r
            running = still
    finally:
        for _i, _j, p, *_ in running:
            try:
                p.kill()
            except Exception:
                pass
        shutil.rmtree(work, ignore_errors=True)
        try:
            os.rmdir(os.path.join(VERIF, ".work"))
        except OSError:
            pass
    return [results[i] for i in sorted(results)]


def check_property(prop: str, tier: str) -> int:
    reg = registry()
    if prop not in reg:
        print("unknown property", prop)
        return 2
    entry = reg[prop]
    seed = int(os.environ.get("VERIF_SEED", "0") or 0)
    src = os.environ.get("SYMX_SRC", "/repo/src")
    env = dict(os.environ)
    env["PYTHONPATH"] = src + os.pathsep + VERIF
    env["PYTHONDONTWRITEBYTECODE"] = "1"
    env["PYTHONHASHSEED"] = "0"
    env["SYMX_SRC"] = src
    sys.path.insert(0, src)
    t0 = time.perf_counter()
    jobs = []
    mods = {}
    for modname in entry["harnesses"]:
        mod = importlib.import_module(modname)
        mods[modname] = mod
        for u in mod.units(tier):
            jobs.append(
                {
                    "module": modname,
                    "harness": mod.NAME,
                    "unit": u["name"],
                    "budget_s": u.get("budget_s", 60),
                    "per_path_s": u.get("per_path_s", 20),
                }
            )
    rnd = random.Random(seed)
    # longest first, ties shuffled by seed
    jobs.sort(key=lambda j: (-j["budget_s"], rnd.random()))
    results = run_units(jobs, tier, seed, env)
    wall = time.perf_counter() - t0

    known = load_known()
    import glob as _glob

    for _f in _glob.glob(os.path.join(os.environ.get("SYMX_REPLAY_DIR") or os.path.join(VERIF, "replays"), prop + "-*.json")):
        os.unlink(_f)  # replay files of earlier runs of this property are stale
    violations: list[dict] = []
    known_hits: dict[str, dict] = {}
    harness_errors: list[str] = []
    inconclusive: list[str] = []
    replay_dir = os.environ.get("SYMX_REPLAY_DIR") or os.path.join(VERIF, "replays")
    evidence_dir = os.environ.get("SYMX_EVIDENCE_DIR") or os.path.join(VERIF, "evidence")
    tot = dict(paths=0, confirmed=0, refuted=0, unknown=0, ignored=0, decisions=0, z3_checks=0, z3_time=0.0, cpu=0.0, validated=0)
    cov_total: dict[str, int] = {}
    functions: set[str] = set()
    unit_rows = []
    samples = []
    certs = []
    for r in results:
        uname = "%s/%s" % (r["harness"], r["unit"])
        if not r.get("ok"):
            harness_errors.append("%s: %s" % (uname, (r.get("error") or "")[-600:]))
            unit_rows.append({"unit": uname, "status": "error"})
            continue
        tot["paths"] += r["paths"]
        tot["confirmed"] += r["confirmed"]
        tot["refuted"] += r["refuted_paths"]
        tot["unknown"] += r["unknown"]
        tot["ignored"] += r["ignored"]
        tot["decisions"] += r["decisions"]
        tot["z3_checks"] += r["z3_checks"]
        tot["z3_time"] += r["z3_time_s"]
        tot["cpu"] += r["cpu_s"]
        tot["validated"] += r["validated_concretely"]
        functions.update(r.get("functions", []))
        for k, v in r["cov"].items():
            cov_total[k] = cov_total.get(k, 0) + v
        decided = r["exhausted"] and r["unknown"] == 0
        if not decided:
            inconclusive.append(
                "%s: %s after %d paths (unknown=%d %s)"
                % (uname, r["stop_reason"], r["paths"], r["unknown"], r.get("unknown_kinds"))
            )
        if r.get("validate_failures"):
            harness_errors.append(
                "%s: engine/concrete disagreement on a CONFIRMED path: %s"
                % (uname, json.dumps(r["validate_failures"][0])[:600])
            )
        c = r.get("certificate")
        if c:
            certs.append({"unit": uname, **c})
            if c.get("status") == "NOT-CERTIFIED":
                harness_errors.append("%s: coverage certificate failed: %s" % (uname, c))
        unit_rows.append(
            {
                "unit": uname,
                "params": r["params"],
                "bounds": r["bounds"],
                "paths": r["paths"],
                "confirmed": r["confirmed"],
                "refuted": r["refuted_paths"],
                "unknown": r["unknown"],
                "ignored": r["ignored"],
                "exhausted": r["exhausted"],
                "stop": r["stop_reason"],
                "z3_checks": r["z3_checks"],
                "z3_time_s": r["z3_time_s"],
                "cpu_s": r["cpu_s"],
            }
        )
        for s in r["samples"][:2]:
            if len(samples) < 12:
                samples.append({"unit": uname, **s})
        for cex in r["refuted"]:
            rp = cex.get("replay", {})
            if rp.get("outcome") != "violation":
                harness_errors.append(
                    "%s: counterexample did not reproduce on plain CPython: %s -> %s"
                    % (uname, json.dumps(cex["inputs"]), rp)
                )
                continue
            clause = rp["clause"]
            if clause.startswith("harness-error:"):
                harness_errors.append("%s: the harness itself failed (it no longer fits the code under test?): %s %s"
                                      % (uname, clause, str(rp.get("detail"))[-400:]))
                continue
            k = match_known(known, prop, r["harness"], clause, cex["inputs"], r["params"] or {})
            rec = {
                "property": prop,
                "module": r["module"],
                "harness": r["harness"],
                "unit": r["unit"],
                "params": r["params"],
                "inputs": cex["inputs"],
                "clause": clause,
                "detail": rp.get("detail"),
            }
            if k is not None:
                known_hits.setdefault(k["id"], {"finding": k, "example": rec, "count": 0})["count"] += 1
            else:
                violations.append(rec)
        # refuted paths beyond the stored ones: clauses still need classification
        stored = {}
        for cex in r["refuted"]:
            stored[cex["clause"]] = stored.get(cex["clause"], 0) + 1
        for clause, n in r["refuted_clauses"].items():
            if clause not in stored:
                harness_errors.append("%s: refuted clause %s without stored counterexample" % (uname, clause))

    # vacuity witnesses
    missing = []
    must = []
    for modname, mod in mods.items():
        for w in getattr(mod, "MUST_REACH", {}).get(tier, getattr(mod, "MUST_REACH", {}).get("all", [])) if isinstance(getattr(mod, "MUST_REACH", None), dict) else getattr(mod, "MUST_REACH", []):
            must.append(w)
            if cov_total.get(w, 0) == 0:
                missing.append("%s:%s" % (mod.NAME, w))
    if missing and not violations:
        harness_errors.append("vacuous: must-reach coverage predicates not witnessed: %s" % missing)

    # write replays
    seen_sig = set()
    vio_lines = []
    os.makedirs(replay_dir, exist_ok=True)
    from .core import replay_id

    for v in violations:
        sig = (v["harness"], v["unit"], v["clause"])
        rid = replay_id(v["harness"], v["unit"], v["inputs"])
        path = os.path.join(replay_dir, "%s-%s.json" % (prop, rid))
        with open(path, "w") as f:
            json.dump(v, f, indent=1)
        sig = (v["harness"], v["clause"])
        if sig in seen_sig or len(vio_lines) >= 6:
            continue
        seen_sig.add(sig)
        vio_lines.append((path, v))

    exhaustive = not inconclusive and not harness_errors
    assumptions = []
    stubs = []
    outside = []
    for mod in mods.values():
        assumptions += getattr(mod, "ASSUMPTIONS", [])
        stubs += getattr(mod, "STUBS", [])
        outside += getattr(mod, "OUTSIDE", [])
    ev = {
        "property_id": prop,
        "tier": tier,
        "seed": seed,
        "level": entry.get("level", "model_checking"),
        "coverage": {
            "states": tot["paths"] - tot["ignored"],
            "transitions": tot["decisions"],
            "traces_validated_against_impl": tot["validated"],
            "evaluations": tot["paths"],
            "distinct_nontrivial": tot["confirmed"] + tot["refuted"],
            "rule": "one evaluation = one symbolic path through the real code = one equivalence class of concrete inputs "
            "(all assignments satisfying that path condition); classes are pairwise disjoint by construction of the decision tree, "
            "so confirmed+refuted paths are distinct; ignored paths (assumption false) are not counted as non-trivial",
            "samples": samples,
            "exhaustive": exhaustive,
            "explanation": "bounded symbolic execution (CrossHair StateSpace + z3) of the real anyio code from /repo's working tree; "
            "states = path classes executed, transitions = solver-decided branch points on those paths, "
            "traces_validated = realised models of CONFIRMED paths re-run on plain CPython with the same oracle",
            "units": unit_rows,
            "paths_by_status": {k: tot[k] for k in ("confirmed", "refuted", "unknown", "ignored")},
            "solver": {"z3_checks": tot["z3_checks"], "z3_time_s": round(tot["z3_time"], 2), "cpu_s": round(tot["cpu"], 1)},
            "functions_encoded": sorted(functions),
            "coverage_predicates": cov_total,
            "must_reach": must,
            "inconclusive_units": inconclusive,
            "harness_errors": harness_errors,
            "coverage_certificates": {"certified": sum(1 for c in certs if c.get("status") == "certified"),
                                      "certified_z3_only": sum(1 for c in certs if c.get("status") == "certified-z3-only"),
                                      "skipped": sum(1 for c in certs if str(c.get("status", "")).startswith("skipped")),
                                      "not_certified": [c for c in certs if c.get("status") == "NOT-CERTIFIED"],
                                      "examples": certs[:4]},
            "stubs": stubs,
            "outside_the_claim": outside,
            "known_findings_met": [
                {"id": k, "count": v["count"], "example": v["example"]["inputs"]} for k, v in known_hits.items()
            ],
        },
        "assumptions": assumptions + stubs,
        "wall_s": round(wall, 2),
        "violations": len(violations),
    }
    os.makedirs(evidence_dir, exist_ok=True)
    with open(os.path.join(evidence_dir, prop + ".json"), "w") as f:
        json.dump(ev, f, indent=1)

    print(
        "%s %s: %d units, %d paths (confirmed %d, refuted %d, unknown %d, ignored %d), z3 checks %d (%.1fs), cpu %.0fs, wall %.0fs, exhaustive=%s"
        % (prop, tier, len(results), tot["paths"], tot["confirmed"], tot["refuted"], tot["unknown"], tot["ignored"], tot["z3_checks"], tot["z3_time"], tot["cpu"], wall, exhaustive)
    )
    for line in inconclusive:
        print("INCONCLUSIVE:", line)
    for k, v in known_hits.items():
        print("KNOWN-FINDING: property=%s %s (%s; %d path classes, e.g. %s)" % (prop, v["finding"]["what"], k, v["count"], json.dumps(v["example"]["inputs"])))
    for path, v in vio_lines:
        print("VIOLATION property=%s replay=%s" % (prop, path))
        print("   harness=%s unit=%s clause=%s inputs=%s detail=%s" % (v["harness"], v["unit"], v["clause"], json.dumps(v["inputs"]), str(v["detail"])[:300]))
    if violations:
        return 1
    if harness_errors:
        for h in harness_errors[:6]:
            print("HARNESS-ERROR:", h[:700])
        if len(harness_errors) > 6:
            print("HARNESS-ERROR: ... %d more" % (len(harness_errors) - 6))
        return 3
    return 0


def replay(path: str) -> int:
    with open(path) as f:
        v = json.load(f)
    src = os.environ.get("SYMX_SRC", "/repo/src")
    sys.path.insert(0, src)
    from .core import run_concrete

    mod = importlib.import_module(v["module"])
    units = {u["name"]: u for t in ("quick", "thorough") for u in mod.units(t)}
    u = units[v["unit"]]
    r = run_concrete(u["fn"], u.get("params", {}), v["inputs"])
    print(json.dumps(r, indent=1))
    if r["outcome"] == "violation":
        print("VIOLATION property=%s replay=%s" % (v["property"], path))
        return 1
    return 0


def main() -> int:
    a = sys.argv[1:]
    if not a or a[0] in ("-h", "--help"):
        print(__doc__)
        return 2
    if a[0] == "list":
        for k, v in registry().items():
            print(k, v["harnesses"])
        return 0
    if a[0] == "replay":
        return replay(a[1])
    if a[0] == "unit":  # dev: python -m symx unit <module> <unit-name-substring> [budget_s]
        sys.path.insert(0, os.environ.get("SYMX_SRC", "/repo/src"))
        from . import core

        mod = importlib.import_module(a[1])
        us = [u for t in ("quick", "thorough") for u in mod.units(t) if a[2] in u["name"]]
        u = us[0]
        r = core.explore(u["fn"], u.get("params", {}), budget_s=float(a[3]) if len(a) > 3 else 60, per_path_s=u.get("per_path_s", 20))
        for c in r["refuted"]:
            c["replay"] = core.run_concrete(u["fn"], u.get("params", {}), c["inputs"])
        r.pop("samples", None)
        print(u["name"])
        print(json.dumps(r, indent=1)[:6000])
        return 0
    tier = a[1] if len(a) > 1 else os.environ.get("VERIF_TIER", "quick")
    return check_property(a[0], tier)


if __name__ == "__main__":
    sys.exit(main())
