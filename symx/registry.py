"""property id -> harness modules (each explored to exhaustion per unit), level and claim text."""
REGISTRY = {
    "C10": {
        "harnesses": ["symx.harness.c10_step"],
        "level": "model_checking",
        "text": "Bounded symbolic model checking of the real Semaphore/CapacityLimiter code: (A) one synchronous step (release, acquire_nowait, "
                "acquire/release_on_behalf_of, total_tokens setter) from an arbitrary state satisfying the representation invariant, counters symbolic "
                "in [0,2^40], queues <=3, so histories of any length are covered by induction on R; z3 decides every branch and every unit is run to path exhaustion.",
        "note": "Trusted: z3, CrossHair's int/bool modelling, CPython C containers; representation invariant R (re-asserted after each step). Outside: queues >3, >4 borrowers, trio backend, uvloop.",
    },
}

NOT_APPLICABLE = {
    "C17": "TLS record framing/fragmentation/truncation happens inside OpenSSL (ssl.SSLObject/MemoryBIO, C code): no available engine can execute it symbolically, and a stub would make the check a statement about the stub (DESIGN.md section 3, C17).",
}
