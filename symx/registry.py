"""property id -> harness modules (each explored to exhaustion per unit), level and claim text."""
REGISTRY = {
    "C10": {
        "harnesses": ["symx.harness.c10_step", "symx.harness.c10_scn"],
        "level": "model_checking",
        "text": "Bounded symbolic model checking of the real Semaphore/CapacityLimiter code: (A) one synchronous step (release, acquire_nowait, "
                "acquire/release_on_behalf_of, total_tokens setter) from an arbitrary state satisfying the representation invariant, counters symbolic "
                "in [0,2^40], queues <=3, so histories of any length are covered by induction on R; z3 decides every branch and every unit is run to path exhaustion.",
        "note": "Trusted: z3, CrossHair's int/bool modelling, CPython C containers; representation invariant R (re-asserted after each step). Outside: queues >3, >4 borrowers, trio backend, uvloop.",
    },
}
REGISTRY["C20"] = {
    "harnesses": ["symx.harness.c20_lru"],
    "level": "model_checking",
    "text": "Bounded symbolic model checking of the real AsyncLRUCacheWrapper on the real asyncio loop logic with a virtual clock: start instants, run times, "
            "failure flags, cancel instants (tick and cycle offset), maxsize, ttl and key sequences are symbolic, every feasible ordering is executed once; "
            "sequential histories are compared with an exact LRU+ttl reference model and with functools.lru_cache.",
    "note": "Trusted: z3, CrossHair, CPython's C Task/Future/OrderedDict, the VLoop stubs (selector, clock). Outside: >4 concurrent callers, >5 sequential calls, kwargs/method descriptors, uvloop, trio.",
}
REGISTRY["C07"] = {
    "harnesses": ["symx.harness.c07_start"],
    "level": "model_checking",
    "text": "Bounded symbolic model checking of the real TaskGroup.start()/task_done/_AsyncioTaskStatus code on the real asyncio loop logic with a virtual clock: "
            "child timing (pre/post sleeps), the started value and the instant (tick + cycle offset) at which the caller's or the group's scope is cancelled are symbolic; "
            "child behaviour / cleanup behaviour / cancel kind are a finite case split; every feasible ordering is executed and checked against the handshake oracle.",
    "note": "Trusted: z3, CrossHair, CPython's C Task/Future, VLoop stubs. Outside: several start() children at once, uvloop, trio.",
}
REGISTRY["C09"] = {
    "harnesses": ["symx.harness.c09_lock"],
    "level": "model_checking",
    "text": "Bounded symbolic model checking of the real Lock code: (A) one synchronous step (release / acquire_nowait by owner, queued waiter or stranger) from an arbitrary "
            "state satisfying the representation invariant (queue <=3, every waiter pending or cancelled); (B) 2-3 contending tasks on the real asyncio loop logic with a virtual clock, "
            "sleep/hold durations and the cancel instant (tick + cycle offset; scope cancel or native Task.cancel) symbolic, so every ordering incl. the hand-off cycle is executed; "
            "oracle over the observation log: mutual exclusion, owner identity, FIFO, no barging, cancel-safety, idle at the end, no deadlock.",
    "note": "Trusted: z3, CrossHair, CPython's C Task/Future/deque, VLoop stubs. Outside: >3 tasks, queues >3, uvloop, trio.",
}
REGISTRY["C12"] = {
    "harnesses": ["symx.harness.c12_mem"],
    "level": "model_checking",
    "text": "Bounded symbolic model checking of the real memory object stream code on the real asyncio loop logic with a virtual clock: 2-4 sender/receiver parties "
            "(blocking and *_nowait), start delays, gaps, max_buffer_size and the cancel instant (tick + cycle offset, scope or native cancel) symbolic, so every ordering "
            "incl. the hand-over cycle is executed; oracle over the log: exactly-once, no invention, per-sender order, FIFO service of blocked senders/receivers, buffer bound.",
    "note": "Trusted: z3, CrossHair, CPython's C Task/Future/deque/OrderedDict, VLoop stubs. Outside: >4 parties, >2 items per sender, uvloop, trio.",
}
REGISTRY["C13"] = {
    "harnesses": ["symx.harness.c13_mem_close"],
    "level": "model_checking",
    "text": "Bounded symbolic model checking of the real memory object stream closing logic: parties own clones and close them at symbolic instants (end of their program, "
            "cancellation), with blocked peers on the other side; oracle: EndOfStream / BrokenResourceError / ClosedResourceError exactly when the statement allows, "
            "every blocked peer is woken (virtual loop deadlock detection), statistics() counts equal the true number of open clones at every step.",
    "note": "Trusted: as C12. Outside: >4 parties, uvloop, trio.",
}
REGISTRY["C16"] = {
    "harnesses": ["symx.harness.c16_streams"],
    "level": "model_checking",
    "text": "Symbolic execution of the real BufferedByteReceiveStream: the byte string (all 256 values per byte, z3 sequence theory), its chunking, n, max_bytes and the delimiter are symbolic, "
            "both kinds of wrapped stream, call sequences of 1-3 operations and feed_data are a finite case split; every unit is run to path exhaustion against the prefix-property oracle. "
            "Text streams: solver-driven finite case split over a 5-character alphabet, 4 encodings and all split points, through the real (C) codecs.",
    "note": "Trusted: z3 sequence theory, CrossHair's bytes/bytearray modelling, CPython codecs. Outside: longer inputs, suspension inside the wrapped receive(), codec internals.",
}
REGISTRY["C19"] = {
    "harnesses": ["symx.harness.c19_itertools"],
    "level": "model_checking",
    "text": "Differential symbolic execution: each anyio.itertools function and anyio.functools.reduce is run on a symbolic element list (length and values symbolic, "
            "sync and async source) with symbolic integer parameters incl. invalid ones and compared with its standard-library namesake on the same arguments; "
            "z3 decides every comparison, each unit is run to path exhaustion. tee(): 2-3 consumer tasks with symbolic sleeps between anext() calls on the virtual loop.",
    "note": "Trusted: z3, CrossHair's int/list/tuple modelling, the C itertools as reference. Outside: longer inputs, non-int elements, uvloop, trio.",
}
REGISTRY["C11"] = {
    "harnesses": ["symx.harness.c11_cond"],
    "level": "model_checking",
    "text": "Bounded symbolic model checking of the real Condition/Event code: (A) notify(n) with n symbolic in [0,2^30] and notify_all on queues of <=3 waiters; "
            "(B) 2-3 waiters, two notifications with symbolic n and instants, the lock held for a symbolic time after notify, one waiter cancelled (scope or native) at a symbolic "
            "instant incl. the cycle of its notification; oracle: counting automaton over the log (no spurious, no lost, waiting order, lock held on return, refusals without the lock).",
    "note": "Trusted: z3, CrossHair, CPython's C Task/Future/deque, VLoop stubs. Outside: >3 waiters, >2 notifications, uvloop, trio.",
}
_SCOPE_TEXT = ("Bounded symbolic model checking of the real CancelScope code (__enter__/__exit__/cancel/_deliver_cancellation/_restart_cancellation_in_parent/shield and "
               "deadline setters) on the real asyncio loop logic with a virtual clock: nested scopes (depth <=3) with symbolic shield flags, sleep durations, deadlines and "
               "the instants (tick + cycle offset) of environment cancel()/shield/deadline assignments; every feasible ordering is executed once and judged by an independent "
               "reference semantics (effective cancellation = cancelled ancestor reachable without crossing a shield) evaluated on the observation log. ")
_SCOPE_NOTE = "Trusted: z3, CrossHair, CPython's C Task/Future, VLoop stubs, the reference semantics. Outside: depth >3, more than 2 cancels + 1 toggle, non-integer times, uvloop, trio."
REGISTRY["C03"] = {"harnesses": ["symx.harness.c03_level"], "level": "model_checking", "text": _SCOPE_TEXT + "C03 clauses: liveness (no deadlock), every checkpoint in an effectively cancelled scope raises, delivery latency <= 4 cycles, re-delivery after a swallowed cancellation.", "note": _SCOPE_NOTE}
REGISTRY["C04"] = {"harnesses": ["symx.harness.c04_contain"], "level": "model_checking", "text": _SCOPE_TEXT + "C04 clauses: an operation is interrupted only while its scope is effectively cancelled; absorb iff own cancel and no visible cancelled ancestor; cancelled_caught exact.", "note": _SCOPE_NOTE}
REGISTRY["C05"] = {"harnesses": ["symx.harness.c05_residue"], "level": "model_checking", "text": _SCOPE_TEXT + "C05 clauses: Task.cancelling() restored (also after 1-4 re-deliveries and counts handed to a cancelled parent), later awaits undisturbed, asyncio.timeout after the scopes behaves, loop idle after the program (no live timer / busy callback).", "note": _SCOPE_NOTE}
REGISTRY["C06"] = {"harnesses": ["symx.harness.c06_deadline"], "level": "model_checking", "text": _SCOPE_TEXT + "C06 clauses: deadline fires iff due while active, at exactly the due tick, re-armed on assignment, never after exit; move_on_*/fail_* report exactly their own deadline; current_effective_deadline() equals the closed form at every operation.", "note": _SCOPE_NOTE}
_TG_TEXT = ("Bounded symbolic model checking of the real TaskGroup code (__aenter__/__aexit__/_spawn/task_done/create_task/start_soon/start, TaskHandle) on the real asyncio loop logic "
            "with a virtual clock: 1-3 children with behaviours from a 9-element alphabet (return, raise, block, shielded cleanup, swallow-and-recheck, raise from cleanup, spawn grandchild, "
            "nested group, late sibling), started via start_soon/create_task/start; sleep durations, return values and the instants (tick + cycle offset) of group/outer/handle/native cancels symbolic. ")
_TG_NOTE = "Trusted: z3, CrossHair, CPython's C Task/Future, VLoop stubs. Outside: >3 children, nesting depth >2, uvloop, trio."
REGISTRY["C01"] = {"harnesses": ["symx.harness.c01_join"], "level": "model_checking", "text": _TG_TEXT + "C01 clauses: at the first instruction after the block every child has terminated and takes no further step; every TaskHandle is final and matches how the coroutine ended.", "note": _TG_NOTE}
REGISTRY["C02"] = {"harnesses": ["symx.harness.c02_errors", "symx.harness.c07_start"], "level": "model_checking", "text": _TG_TEXT + "C02 clauses: leaves of the raised exception group == the non-cancellation exceptions actually raised (by identity, exactly once), no own cancellation reported, siblings cancelled after a failure; plus the start() scenarios of C07 (starter cancelled while the child unwinds).", "note": _TG_NOTE}
REGISTRY["C08"] = {
    "harnesses": ["symx.harness.c08_checkpoint"],
    "level": "model_checking",
    "text": "Symbolic execution of the operation x fast-path-state matrix on the real asyncio loop logic: for each of 24 potentially blocking operations (in a state where it can complete "
            "without waiting), 10 exempt synchronous calls and 23 anyio.itertools traversals, the enclosing scope chain's cancel and shield flags and the state parameters "
            "(semaphore value, tokens, buffer fill, delay <= 0, input length) are symbolic; oracle: effectively cancelled => raises and no effect; otherwise yields at least once.",
    "note": "Trusted: z3, CrossHair, CPython's C Task/Future, VLoop stubs. Outside: to_thread.run_sync outside a cancelled scope (real thread), uvloop, trio.",
}
REGISTRY["C14"] = {
    "harnesses": ["symx.harness.c14_thread"],
    "level": "model_checking",
    "text": "PARTIAL (loop side only): bounded symbolic model checking of the real run_sync_in_worker_thread / WorkerThread.run / _report_result / check_cancelled code on the virtual loop, "
            "with the OS thread replaced by an environment action that executes the real WorkerThread.run() body at a symbolic instant; 1-3 callers, limiter total, start times, "
            "thread-completion instants, cancel instant (incl. before the call and in the entry checkpoint) and return values symbolic; abandon_on_cancel on/off. "
            "Oracle: value/exception identity, context variables, #running <= tokens, token given back on every path, deferred cancellation, check_cancelled().",
    "note": "Trusted: z3, CrossHair, C Task/Future, VLoop stubs, the thread stub (function runs atomically at the chosen instant). NOT covered: real thread interleavings, from_thread.run/run_sync from inside the function, idle-worker pruning, uvloop, trio.",
}
REGISTRY["C15"] = {
    "harnesses": ["symx.harness.c15_portal"],
    "level": "model_checking",
    "text": "PARTIAL (loop side only): bounded symbolic model checking of the real BlockingPortal code (_call_func and its cancel callback, _spawn_task_from_thread, start_task_soon, call, "
            "start_task and its task_done callback, stop, __aexit__) on the virtual loop, the caller threads played by environment actions at symbolic instants; 1-3 calls with "
            "callables from an 8-element alphabet, symbolic values, durations, future.cancel() and stop(cancel_remaining) instants. Oracle: exactly-once execution, value/exception "
            "routing by identity, cancel affects precisely its task, refusal after stop, join on exit, start_task caller never left hanging.",
    "note": "Trusted: z3, CrossHair, C Task/Future, VLoop stubs, the thread-boundary stubs listed in the evidence. NOT covered: blocking halves (Future.result(), start_blocking_portal thread join, _BlockingAsyncContextManager), real thread interleavings, uvloop, trio.",
}
REGISTRY["C18"] = {
    "harnesses": ["symx.harness.c18_sock"],
    "level": "model_checking",
    "text": "PARTIAL (stream layer over a contract stub): bounded symbolic model checking of the real StreamProtocol / SocketStream / UNIXSocketStream / ResourceGuard code on the virtual loop, "
            "against a stub transport and a stub non-blocking socket that follow the documented contracts; chunk lengths, arrival instants, max_bytes, reader delays, partial recv/send "
            "sizes, BlockingIOError occurrences, write-gate close/open instants and the aclose() instant are symbolic. Oracle: received bytes are a prefix of / equal to the sent bytes, "
            "chunk size 1..max_bytes, EndOfStream after the data, send() never returns while the write gate is closed, all bytes written once in order, closed-stream errors, BusyResourceError.",
    "note": "Trusted: z3, CrossHair, C Task/Future/deque, VLoop stubs, the transport/socket contract stubs. NOT covered: real kernel buffers and TCP loopback (the property's 'several socket buffers'), uvloop transports, fds passing, datagrams, trio.",
}

NOT_APPLICABLE = {
    "C17": "TLS record framing/fragmentation/truncation happens inside OpenSSL (ssl.SSLObject/MemoryBIO, C code): no available engine can execute it symbolically, and a stub would make the check a statement about the stub (DESIGN.md section 3, C17).",
}


_T_B = ("symbolic execution of the real Python code (CrossHair StateSpace driven to path exhaustion by symx; z3 decides every branch on the symbolic "
        "schedule/inputs) on the real asyncio loop logic with a virtual symbolic clock; independent log oracle; z3+cvc5 coverage certificate; counterexamples replayed on plain CPython")
_T_AB = "inductive one-step symbolic check from an arbitrary state satisfying the representation invariant (Layer A) + " + _T_B
for _k, _v in REGISTRY.items():
    _v.setdefault("technique", _T_AB if _k in ("C04", "C09", "C10", "C11") else _T_B)
REGISTRY["C16"]["technique"] = ("symbolic execution of the real buffered-stream code over symbolic byte strings (z3 sequence theory), chunkings and arguments, to path exhaustion; "
                                "text streams: solver-driven finite case split through the real codecs; counterexamples replayed on plain CPython")
REGISTRY["C19"]["technique"] = "differential symbolic execution against the stdlib namesakes on symbolic element lists and parameters, to path exhaustion; tee on the virtual loop; concrete replay"
REGISTRY["C08"]["technique"] = "symbolic execution of every cell of the operation x fast-path-state matrix with symbolic scope-chain flags and state parameters, to path exhaustion; concrete replay"
for _k in ("C14", "C15", "C18"):
    REGISTRY[_k]["technique"] = "PARTIAL: " + _T_B + "; the OS-thread / caller-thread / transport boundary is a contract stub driven at symbolic instants"
