"""C01: task group join -- no child outlives its task group block (tg_scn.scn, clauses C01:*)."""
from symx.harness import tg_scn
from symx.vloop import STUBS as LOOP_STUBS

NAME = "c01_join"
PROP = "C01"
STUBS = LOOP_STUBS
ASSUMPTIONS = ["children/body/environment as described in tg_scn; 'exit' is the first instruction after the `async with` block (a finally clause around it)"]
OUTSIDE = ["more than 3 children, nesting depth > 2", "uvloop, trio"]
MUST_REACH = ["handle-finished", "handle-cancelled", "handle-failed", "child-cancelled", "child-returned", "grandchild-joined", "shielded-cleanup-ran",
              "host-native-cancel-in-aexit", "late-start-refused-or-joined", "group-raised", "external-spawn-accepted", "external-spawn-refused"]


def units(tier):
    quick = tier == "quick"
    us = []
    B = 240 if quick else 1500

    def add(name, children, **p):
        p.setdefault("T", 1)
        p.setdefault("J", 1)
        p["props"] = [PROP]
        p["children"] = children
        us.append({"name": name, "fn": tg_scn.scn, "params": p, "budget_s": B})

    add("R+B group-cancel", [("R", "task"), ("B", "task")], env=("group",))
    add("R+C outer-cancel", [("R", "task"), ("C", "soon")], env=("outer",))
    add("E+C", [("E", "task"), ("C", "task")])
    add("C host-native x2", [("C", "task")], env=("host", "host"), J=2)
    add("C+B host-native body-fall", [("C", "soon"), ("B", "task")], env=("host",), J=2)
    add("S+R group-cancel", [("S", "task"), ("R", "soon")], env=("group",))
    add("X+B body-raise", [("X", "task"), ("B", "soon")], body="raise")
    add("G+B body-cancel", [("G", "soon"), ("B", "task")], body="cancel")
    add("L+E", [("L", "soon"), ("E", "task")])
    add("N group-cancel", [("N", "task")], env=("group",))
    add("B start + R handle0-cancel", [("B", "task"), ("R", "start")], env=("handle0", "group"))
    add("R+R+B group-cancel", [("R", "task"), ("R", "task"), ("B", "task")], env=("group",), J=0)
    add("R handle0-cancel (cancel may lose the race with the wake-up)", [("R", "task")], env=("handle0",), J=2)
    add("W handle0-cancel (child swallows and returns)", [("W", "task"), ("R", "task")], env=("handle0",), J=1)
    add("X handle0-cancel (child replaces the cancellation)", [("X", "task")], env=("handle0",), J=1)
    add("no children, external spawn", [], env=("spawn",), J=3)
    add("no children, external spawn + group-cancel (both may fall into the exit checkpoint)", [], env=("spawn", "group"), J=3)
    add("no children, external spawn + outer-cancel", [], env=("spawn", "outer"), J=3)
    add("R+C outer-cancel eager", [("R", "task"), ("C", "soon")], env=("outer",), eager=True)
    add("R, external spawn", [("R", "soon")], env=("spawn",), J=3)
    add("B, external spawn + group-cancel", [("B", "task")], env=("spawn", "group"), J=2)
    add("host spawns from shielded section, group-cancel", [], body="shielded-spawn", env=("group",), T=2, J=1)
    add("host spawns from shielded section, outer-cancel, sibling", [("R", "soon")], body="shielded-spawn", env=("outer",), T=1, J=1)
    if not quick:
        add("C+C+E", [("C", "task"), ("C", "soon"), ("E", "task")], J=2)
        add("C host-native x2 eager", [("C", "task")], env=("host", "host"), J=2, eager=True)
        add("G+L+B outer", [("G", "soon"), ("L", "soon"), ("B", "task")], env=("outer",))
        add("N+E", [("N", "task"), ("E", "soon")], J=2)
        add("R+B child0-native", [("B", "task"), ("R", "task")], env=("child0",), J=2)
        add("R+B group-cancel T=2", [("R", "task"), ("B", "task")], env=("group",), T=2, J=2)
    if not quick:
        # the full behaviour x behaviour matrix (two children) under each kind of cancellation
        behs = ["R", "E", "B", "C", "S", "X", "G", "L", "W", "N"]
        for b1 in behs:
            for b2 in behs:
                for env in ((), ("group",), ("outer",)):
                    if not env and (b1 in "BCSXW" or b2 in "BCSXW") and "E" not in (b1, b2):
                        continue  # nothing would ever end a blocker
                    us.append({"name": "matrix %s+%s env=%s" % (b1, b2, ",".join(env) or "-"), "fn": tg_scn.scn,
                               "params": {"props": [PROP], "children": [(b1, "task"), (b2, "soon")], "env": env, "T": 1, "J": 2}, "budget_s": 900})
        for b3 in ("R", "E", "C"):
            us.append({"name": "three R+B+%s group-cancel T=2" % b3, "fn": tg_scn.scn,
                       "params": {"props": [PROP], "children": [("R", "task"), ("B", "soon"), (b3, "task")], "env": ("group",), "T": 2, "J": 1}, "budget_s": 1500})
        # every quick shape again with longer sleeps / more cycle offsets, and on the eager task factory
        base = [u for u in us if u["params"].get("T", 1) == 1 and not u["params"].get("eager")]
        for u in base:
            for (T, J, eager) in ((2, 2, False), (1, 2, True)):
                p = dict(u["params"], T=T, J=J, eager=eager)
                us.append({"name": u["name"] + " T=%d J=%d%s" % (T, J, " eager" if eager else ""), "fn": u["fn"], "params": p, "budget_s": 1500})
    return us
