"""C03: level-triggered cancellation -- nothing stays blocked in a cancelled scope (scope_tree.scn, clauses C03:*)."""
from symx.harness import scope_tree, tg_scn
from symx.vloop import STUBS as LOOP_STUBS

NAME = "c03_level"
PROP = "C03"
STUBS = LOOP_STUBS
ASSUMPTIONS = ["program: nested scopes, each level op(pre) ; inner ; op(post) with op = anyio.sleep(w), w symbolic in [0,T]; "
               "'small bounded number of cycles' = %d loop cycles" % scope_tree.K_CYCLES]
OUTSIDE = ["nesting depth > 3, more than two environment cancels / one shield toggle", "uvloop, trio"]
MUST_REACH = ["op-cancelled-while-blocked", "op-cancelled-at-entry", "op-completed-behind-shield", "redelivered-after-swallow", "scope-absorbed-own-cancel", "cancel-passed-through-inner-scope", "spawn-into-cancelled-scope-from-shielded-host"]


def units(tier):
    quick = tier == "quick"
    us = []
    B = 240 if quick else 1500

    def add(name, **p):
        p.setdefault("T", 1)
        p["props"] = [PROP]
        us.append({"name": name, "fn": scope_tree.scn, "params": p, "budget_s": B})

    for c in (0, 1):
        add("D=2 cancel=%d" % c, D=2, cancel=c, T=1 if quick else 2)
        add("D=2 cancel=%d child" % c, D=2, cancel=c, in_child=True)
    add("D=2 cancel=0 stubborn=1", D=2, cancel=0, stubborn=1, shields=(False, False))
    add("D=2 cancel=1 stubborn=1", D=2, cancel=1, stubborn=1, shields=(False, False))
    add("D=2 cancel=0 cancel2=1 stubborn=1 (two scopes cancelled back to back, task possibly runnable)", D=2, cancel=0, cancel2=1, stubborn=1, shields=(False, False), J=2)
    add("D=2 cancel=1 cancel2=0 stubborn=1", D=2, cancel=1, cancel2=0, stubborn=1, shields=(False, False), J=1)
    add("D=2 pre_cancel=1", D=2, pre_cancel=1)
    add("D=2 cancel=0 child eager", D=2, cancel=0, in_child=True, eager=True)
    add("D=2 pre_cancel=0 toggle", D=2, pre_cancel=0, toggle=(1, False), shields=(False, True))
    add("D=2 cancel=0 unshield-inner", D=2, cancel=0, toggle=(1, False), shields=(False, True), J=1)
    add("D=3 cancel=0", D=3, cancel=0, J=1, post0=quick)
    add("D=3 cancel=1", D=3, cancel=1, J=1, post0=quick)
    add("D=3 cancel=0 unshield-mid", D=3, cancel=0, toggle=(1, False), shields=(False, True, False), J=1, post0=quick)
    add("D=3 cancel=0 cancel2=1 mid-shielded", D=3, cancel=0, cancel2=1, shields=(False, True, True), toggle=(2, False), J=0, post0=True)
    if not quick:
        import itertools as _it

        add("D=2 cancel=0 eager child", D=2, cancel=0, in_child=True, eager=True)
        # depth 3 with every concrete shield vector (8 exploration roots per shape instead of one huge one)
        for shv in _it.product((False, True), repeat=3):
            tag = "".join("S" if x else "-" for x in shv)
            add("D=3 cancel=0 T=2 shields=%s" % tag, D=3, cancel=0, T=2, J=1, shields=shv)
            add("D=3 cancel=2 cancel2=0 shields=%s" % tag, D=3, cancel=2, cancel2=0, shields=shv)
            add("D=3 cancel=1 cancel2=2 shields=%s" % tag, D=3, cancel=1, cancel2=2, shields=shv)
            for lv in (1, 2):
                add("D=3 cancel=0 toggle=(%d,%s) shields=%s" % (lv, not shv[lv], tag), D=3, cancel=0, toggle=(lv, not shv[lv]), shields=shv, J=1)
        for shv in _it.product((False, True), repeat=4):
            if sum(shv) == 1:
                tag = "".join("S" if x else "-" for x in shv)
                add("D=4 cancel=3 cancel2=0 shields=%s" % tag, D=4, cancel=3, cancel2=0, shields=shv, T=1, J=1, post0=True)
    add("D=1 deadline initially inf or finite, re-armed (cancelled by its deadline)", D=1, deadlines=(0,), redeadline=(0,), dl_may_be_inf=True, shields=(False,))
    add("D=1 deadline moved twice (e.g. to infinity and back)", D=1, deadlines=(0,), redeadline=(0,), redeadline2=True, shields=(False,), J=1)
    add("D=2 outer deadline, inner shield sym", D=2, deadlines=(0,), shields="sym")
    for env in (("group",), ("outer",)):
        us.append({"name": "tg shielded-spawn env=%s" % env[0], "fn": tg_scn.scn, "budget_s": B,
                   "params": {"props": [PROP], "children": [], "body": "shielded-spawn", "env": env, "T": 2, "J": 1}})
    us.append({"name": "tg shielded-spawn env=group with sibling", "fn": tg_scn.scn, "budget_s": B,
               "params": {"props": [PROP], "children": [("R", "soon")], "body": "shielded-spawn", "env": ("group",), "T": 1, "J": 1}})
    return us
