"""C15 (partial): BlockingPortal -- loop side, the foreign threads played by the environment.

The harness plays the caller threads from environment actions at symbolic instants: while such an action
runs, from_thread.get_ident() returns a foreign thread id; AsyncIOBackend.run_sync_from_thread is replaced by a
stub that posts its wrapper with call_soon and returns without blocking (its return value is not used by
_spawn_task_from_thread / the cancel callback); concurrent.futures.Future inside anyio.from_thread is replaced by
a recording subclass whose result() raises instead of blocking, so that the REAL start_task_soon / call /
start_task code runs up to its final blocking wait.
Real code executed: BlockingPortal.__aenter__/__aexit__/stop/_check_running/_call_func (+ cancel callback)/
_spawn_task_from_thread/start_task_soon/call/start_task (+ task_done), _BlockingPortalTaskStatus, TaskGroup.
"""
from __future__ import annotations

import asyncio
import concurrent.futures

from symx.core import Violation, chk
from symx.vloop import STUBS as LOOP_STUBS
from symx.vloop import CycleBudget, Deadlock, VLoop

NAME = "c15_portal"
STUBS = LOOP_STUBS + [
    "from_thread.get_ident(): a foreign id while an environment action plays a caller thread",
    "AsyncIOBackend.run_sync_from_thread(func, args, token): posts the real wrapper logic with loop.call_soon and returns immediately (no blocking f.result())",
    "anyio.from_thread.Future: recording subclass of concurrent.futures.Future whose result() raises _Pending instead of blocking when not done",
]
ASSUMPTIONS = ["each call is issued atomically at its symbolic instant; the callers never block (the blocking halves are outside the claim)"]
OUTSIDE = ["the blocking halves: Future.result() in call()/start_task(), _BlockingAsyncContextManager, start_blocking_portal's thread start/join", "real multi-thread interleavings", "uvloop, trio"]
MUST_REACH = ["portal:value-delivered", "portal:exception-delivered", "portal:future-cancel-cancelled-task", "portal:refused-after-stop", "portal:cancel_remaining",
              "portal:started-value", "portal:ended-before-started", "portal:cancelled-before-started"]


class E(Exception):
    pass


class _Pending(Exception):
    pass


def scn(sym, cov, calls, cancel=None, stop_cancel=None, eager=False, T=1, J=1, stop_twice=False, foreign_worker=False):
    """calls: list of (api, kind): api in 'soon' | 'call' | 'start'; kind in 'sync' | 'coro' | 'raise' | 'block' | 'started' | 'nostart-return' | 'nostart-block' | 'nostart-raise'
    cancel: index of the call whose future is cancelled at a symbolic instant
    stop_cancel: None = leave the portal context normally after everything scripted; True/False = portal.stop(cancel_remaining=...) at a symbolic instant
    foreign_worker: the caller threads are AnyIO worker threads of ANOTHER event loop (their thread-local token names that loop):
        the portal must still dispatch to its own loop
    stop_twice: after that stop(), a second portal.stop(cancel_remaining=True) follows some ticks later (graceful stop first, then forced)"""
    import anyio
    import anyio._backends._asyncio as B
    import anyio.from_thread as FT
    from anyio import TASK_STATUS_IGNORED
    from anyio.from_thread import BlockingPortal

    n = len(calls)
    loop = VLoop(eager=eager)
    it = [sym.int("it%d" % k, 0, T + 1) for k in range(n)]  # instant of call k
    ij = [sym.int("ij%d" % k, 0, J) for k in range(n)]
    d = [sym.int("d%d" % k, 0, T) for k in range(n)]
    v = [sym.int("v%d" % k, 0, 1000) for k in range(n)]
    sv = [sym.int("sv%d" % k, 0, 1000) for k in range(n)]
    if cancel is not None:
        ct = sym.int("ct", 0, T + 2)
        cj = sym.int("cj", 0, J)
    if stop_cancel is not None:
        st_t = sym.int("stop_t", 0, T + 2)
        st2 = sym.int("stop2_d", 0, T) if stop_twice else 0
    created: list = []
    foreign = [False]
    real_ident = FT.get_ident
    saved = (FT.get_ident, FT.Future, B.AsyncIOBackend.run_sync_from_thread)

    class HFuture(concurrent.futures.Future):
        def __init__(self):
            super().__init__()
            created.append(self)

        def result(self, timeout=None):
            if not self.done():
                raise _Pending()
            return super().result(0)

    def fake_ident():
        return 424242 if foreign[0] else real_ident()

    def stub_run_sync_from_thread(func, args, token):
        f = concurrent.futures.Future()

        def wrapper():
            try:
                f.set_result(func(*args))
            except BaseException as exc:
                f.set_exception(exc)
                if not isinstance(exc, Exception):
                    raise

        lp = token or loop
        if lp.is_closed():
            raise anyio.RunFinishedError
        lp.call_soon(wrapper)
        return None

    FT.get_ident = fake_ident
    FT.Future = HFuture
    B.AsyncIOBackend.run_sync_from_thread = classmethod(lambda cls, func, args, token: stub_run_sync_from_thread(func, args, token))

    from anyio._core._eventloop import threadlocals as _tl
    from anyio.lowlevel import EventLoopToken

    class OtherBackend:
        """stands for the backend of another, unrelated event loop"""

        @classmethod
        def run_sync_from_thread(cls, func, args, token):
            viol.append(("call-dispatched-to-another-event-loop", "run_sync_from_thread"))

        @classmethod
        def run_async_from_thread(cls, func, args, token):
            viol.append(("call-dispatched-to-another-event-loop", "run_async_from_thread"))

    other_token = EventLoopToken(OtherBackend, object())
    viol: list = []
    ran = {}
    tasklog = {}  # k -> 'returned' | 'raised' | 'cancelled'
    excs = {}
    info = {}  # k -> dict(future, status_future, refused)
    state = {"exited": False, "after_exit": 0}

    def bad(c, dd=None):
        viol.append((c, dd))

    def mk(k, kind):
        def count():
            ran[k] = ran.get(k, 0) + 1
            if state["exited"]:
                state["after_exit"] += 1

        if kind == "sync":
            def f():
                count()
                tasklog[k] = "returned"
                return v[k]

            return f

        async def g(*, task_status=TASK_STATUS_IGNORED):
            count()
            try:
                await anyio.sleep(d[k])
                if kind == "raise" or kind == "nostart-raise":
                    excs[k] = E(k)
                    raise excs[k]
                if kind in ("block", "nostart-block", "xcleanup"):
                    await anyio.sleep_forever()
                if kind == "started":
                    task_status.started(sv[k])
                    await anyio.sleep(d[k])
                tasklog[k] = "returned"
                return v[k]
            except asyncio.CancelledError:
                if kind == "xcleanup":
                    tasklog[k] = "raised"
                    excs[k] = E(k)
                    raise excs[k]  # a failing cleanup: the task replaces its cancellation by an ordinary error
                tasklog[k] = "cancelled"
                raise
            except E:
                tasklog[k] = "raised"
                raise
            except BaseException as exc:
                tasklog[k] = "other:" + type(exc).__name__
                raise
            finally:
                if state["exited"]:
                    state["after_exit"] += 1

        return g

    async def main():
        portal_box = {}

        def issue(k):
            api, kind = calls[k]
            portal = portal_box.get("p")
            info[k] = {"refused": False, "api": api, "kind": kind, "stopped_before": state.get("stopped", False)}
            if portal is None:
                info[k]["refused"] = "no-portal-yet"
                return
            foreign[0] = True
            before = len(created)
            if foreign_worker:
                _tl.current_token = other_token
            try:
                fn = mk(k, kind)
                try:
                    if api == "soon":
                        portal.start_task_soon(fn)
                    elif api == "call":
                        portal.call(fn)
                    else:
                        portal.start_task(fn)
                except _Pending:
                    pass
                except RuntimeError as e:
                    if len(created) == before:
                        info[k]["refused"] = str(e)
                    else:
                        raise
                new = created[before:]
                if api == "start" and len(new) == 2:
                    info[k]["status_future"], info[k]["future"] = new[0], new[1]
                elif len(new) >= 1:
                    info[k]["future"] = new[-1]
            finally:
                foreign[0] = False
                if foreign_worker and hasattr(_tl, "current_token"):
                    del _tl.current_token

        def cancel_future():
            f = info.get(cancel, {}).get("future")
            if f is not None:
                foreign[0] = True
                try:
                    info[cancel]["cancel_result"] = f.cancel()
                    info[cancel]["cancel_task_state"] = tasklog.get(cancel)
                finally:
                    foreign[0] = False

        for k in range(n):
            loop.env_at(it[k], ij[k], issue, k)
        if cancel is not None:
            loop.env_at(ct, cj, cancel_future)
        try:
            async with BlockingPortal() as portal:
                portal_box["p"] = portal
                if stop_cancel is not None:
                    await anyio.sleep(st_t)
                    state["stopped"] = True
                    await portal.stop(cancel_remaining=stop_cancel)
                    if stop_twice:
                        await anyio.sleep(st2)
                        await portal.stop(cancel_remaining=True)
                else:
                    await anyio.sleep(T + 3)
                    # nothing scripted is left: release calls that block forever so that the context can be left
                    for k in range(n):
                        f = info.get(k, {}).get("future")
                        if f is not None and not f.done() and calls[k][1] in ("block", "nostart-block", "xcleanup"):
                            foreign[0] = True
                            try:
                                info[k]["late_cancel"] = f.cancel()
                            finally:
                                foreign[0] = False
                    state["stopped"] = True
        except BaseExceptionGroup as eg:
            state["group"] = eg
        state["exited"] = True
        state["snapshot"] = dict(tasklog)
        state["ran_at_exit"] = dict(ran)
        await anyio.sleep(T + 3)

    try:
        try:
            loop.run(main(), max_cycles=600)
        finally:
            FT.get_ident, FT.Future, B.AsyncIOBackend.run_sync_from_thread = saved[0], saved[1], saved[2]
    except Deadlock:
        raise Violation("liveness:Deadlock", {"tasklog": dict(tasklog)})
    except CycleBudget:
        raise Violation("liveness:CycleBudget")
    import os
    if os.environ.get("SYMX_DEBUG"):
        print("DEBUG tasklog", tasklog, "ran", ran, "snapshot", state.get("snapshot"), "info", {k: {kk: (vv if not hasattr(vv, "done") else ("F", vv.done(), vv.cancelled())) for kk, vv in i.items()} for k, i in info.items()}, "errors", loop.errors)
    chk(not viol, viol[0][0] if viol else "", viol[:3])
    chk(state["after_exit"] == 0, "task-step-after-portal-exit")
    chk("group" not in state, "portal-task-group-crashed", repr(state.get("group")))
    blockers_left = False
    for k in range(n):
        i = info.get(k)
        if i is None:
            continue  # the call was scheduled after the program ended
        api, kind = calls[k]
        if i["refused"]:
            chk(ran.get(k, 0) == 0, "refused-call-was-executed", k)
            if i["refused"] != "no-portal-yet":
                chk(i["stopped_before"], "call-refused-although-portal-running", {"call": k, "error": i["refused"]})
                cov.hit("portal:refused-after-stop")
            continue
        chk(not i["stopped_before"], "call-accepted-after-stop", k)
        f = i.get("future")
        chk(f is not None, "no-future-created", k)
        # exactly-once execution (a task cancelled before its first step never runs)
        chk(ran.get(k, 0) <= 1, "callable-ran-more-than-once", {"call": k, "ran": ran.get(k)})
        # joined: once the portal context has been left every started task has finished
        if ran.get(k, 0) == 1:
            chk(k in state["snapshot"], "task-still-running-after-portal-exit", k)
        chk(f.done(), "future-left-pending", {"call": k, "task": tasklog.get(k)})
        if f.cancelled():
            # (a cancel request may race with the task's own completion in the same cycle; the caller's cancel wins)
            was_requested = (cancel == k and i.get("cancel_result")) or stop_cancel is True or stop_twice or i.get("late_cancel")
            chk(was_requested, "future-cancelled-without-request", k)
            cov.hit("portal:future-cancel-cancelled-task", cancel == k and tasklog.get(k) == "cancelled")
            cov.hit("portal:cancel_remaining", (stop_cancel is True or stop_twice) and cancel != k)
        elif f.exception() is not None:
            chk(f.exception() is excs.get(k), "wrong-exception-delivered", {"call": k, "got": repr(f.exception())})
            cov.hit("portal:exception-delivered")
        else:
            chk(tasklog.get(k) == "returned" and ran.get(k) == 1, "result-without-execution", k)
            chk(f.result() == v[k], "wrong-value-delivered", {"call": k, "got": f.result(), "want": v[k]})
            cov.hit("portal:value-delivered")
        if cancel is not None and cancel != k and stop_cancel is not True and not stop_twice and not i.get("late_cancel"):
            chk(tasklog.get(k) != "cancelled", "cancelling-one-future-cancelled-another-task", {"cancelled_call": cancel, "victim": k})
        if api == "start":
            sf = i.get("status_future")
            chk(sf is not None, "no-status-future", k)
            chk(sf.done(), "start_task-caller-left-hanging", {"call": k, "task": tasklog.get(k), "future_cancelled": f.cancelled()})
            if sf.cancelled():
                cov.hit("portal:cancelled-before-started")
                chk(f.cancelled(), "status-cancelled-but-task-future-not", k)
            elif sf.exception() is not None:
                cov.hit("portal:ended-before-started")
                if kind == "nostart-raise":
                    chk(sf.exception() is excs.get(k), "start_task-wrong-exception", k)
                else:
                    chk(isinstance(sf.exception(), RuntimeError) and kind == "nostart-return", "start_task-unexpected-error", repr(sf.exception()))
            else:
                chk(kind == "started" and sf.result() == sv[k], "start_task-wrong-started-value", {"call": k})
                cov.hit("portal:started-value")


def units(tier):
    quick = tier == "quick"
    us = []
    B_ = 240 if quick else 1500

    def add(name, calls, **p):
        p.setdefault("T", 1)
        p["calls"] = calls
        us.append({"name": name, "fn": scn, "params": p, "budget_s": B_})

    add("soon coro + call sync", [("soon", "coro"), ("call", "sync")])
    add("soon raise + soon coro cancel0", [("soon", "raise"), ("soon", "coro")], cancel=0)
    add("soon block + soon coro cancel0", [("soon", "block"), ("soon", "coro")], cancel=0)
    add("soon xcleanup + soon coro cancel0", [("soon", "xcleanup"), ("soon", "coro")], cancel=0)
    add("soon xcleanup + soon block stop(cancel)", [("soon", "xcleanup"), ("soon", "block")], stop_cancel=True)
    add("soon block + call coro stop(cancel)", [("soon", "block"), ("call", "coro")], stop_cancel=True)
    add("soon coro + soon coro stop(no cancel)", [("soon", "coro"), ("soon", "coro")], stop_cancel=False)
    add("soon block + soon coro stop() then stop(cancel)", [("soon", "block"), ("soon", "coro")], stop_cancel=False, stop_twice=True)
    add("start nostart-block stop() then stop(cancel)", [("start", "nostart-block")], stop_cancel=False, stop_twice=True)
    add("soon coro + call sync, callers are worker threads of another loop", [("soon", "coro"), ("call", "sync")], foreign_worker=True)
    add("start started, caller is a worker thread of another loop", [("start", "started")], foreign_worker=True, cancel=0)
    add("start started", [("start", "started")])
    add("start started cancel0", [("start", "started")], cancel=0)
    add("start nostart-return", [("start", "nostart-return")])
    add("start nostart-raise", [("start", "nostart-raise")])
    add("start nostart-block cancel0", [("start", "nostart-block")], cancel=0)
    add("start nostart-block stop(cancel)", [("start", "nostart-block"), ("soon", "coro")], stop_cancel=True)
    add("start started + soon block stop(cancel)", [("start", "started"), ("soon", "block")], stop_cancel=True)
    if not quick:
        add("3 mixed cancel1", [("soon", "coro"), ("soon", "block"), ("call", "raise")], cancel=1)
        add("3 mixed stop(cancel)", [("start", "started"), ("soon", "block"), ("call", "coro")], stop_cancel=True)
        add("soon block + soon coro cancel0 eager", [("soon", "block"), ("soon", "coro")], cancel=0, eager=True)
        add("start nostart-block cancel0 T=2", [("start", "nostart-block")], cancel=0, T=2, J=2)
    return us
