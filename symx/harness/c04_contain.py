"""C04: cancellation containment -- shields hold and the right scope absorbs (scope_tree.scn, clauses C04:*)."""
from symx.harness import c14_thread, scope_tree, tg_scn
from symx.vloop import STUBS as LOOP_STUBS

NAME = "c04_contain"
PROP = "C04"
STUBS = LOOP_STUBS + [x for x in c14_thread.STUBS if x not in LOOP_STUBS]
ASSUMPTIONS = ["program: nested scopes, each level op(pre) ; inner ; op(post) with op = anyio.sleep(w), w symbolic in [0,T]; "
               "'small bounded number of cycles' = %d loop cycles" % scope_tree.K_CYCLES]
OUTSIDE = ["nesting depth > 3, more than two environment cancels / one shield toggle", "uvloop, trio"]
MUST_REACH = ["op-cancelled-while-blocked", "op-cancelled-at-entry", "op-completed-behind-shield", "redelivered-after-swallow", "scope-absorbed-own-cancel", "cancel-passed-through-inner-scope"]


def units(tier):
    quick = tier == "quick"
    us = []
    B = 240 if quick else 1500

    def add(name, **p):
        p.setdefault("T", 1)
        p["props"] = [PROP]
        us.append({"name": name, "fn": scope_tree.scn, "params": p, "budget_s": B})

    for c in (0, 1):
        add("D=2 cancel=%d" % c, D=2, cancel=c, T=1 if quick else 2)
        add("D=2 cancel=%d child" % c, D=2, cancel=c, in_child=True)
    add("D=2 cancel=0 stubborn=1", D=2, cancel=0, stubborn=1, shields=(False, False))
    add("D=2 cancel=1 stubborn=1", D=2, cancel=1, stubborn=1, shields=(False, False))
    add("D=2 pre_cancel=1", D=2, pre_cancel=1)
    add("D=2 pre_cancel=0 toggle", D=2, pre_cancel=0, toggle=(1, False), shields=(False, True))
    add("D=2 cancel=0 unshield-inner", D=2, cancel=0, toggle=(1, False), shields=(False, True), J=1)
    add("D=3 cancel=0", D=3, cancel=0, J=1, post0=quick)
    add("D=3 cancel=1", D=3, cancel=1, J=1, post0=quick)
    add("D=3 cancel=0 unshield-mid", D=3, cancel=0, toggle=(1, False), shields=(False, True, False), J=1, post0=quick)
    add("D=3 cancel=0 cancel2=1 mid-shielded", D=3, cancel=0, cancel2=1, shields=(False, True, True), toggle=(2, False), J=0, post0=True)
    add("D=3 cancel=2 cancel2=0 outer-behind-shield", D=3, cancel=2, cancel2=0, J=1, post0=True)
    add("D=3 cancel=1 toggle-on-inner", D=3, cancel=1, toggle=(2, True), J=1, post0=True)
    if not quick:
        import itertools as _it

        add("D=2 cancel=0 eager child", D=2, cancel=0, in_child=True, eager=True)
        # depth 3 with every concrete shield vector (8 exploration roots per shape instead of one huge one)
        for shv in _it.product((False, True), repeat=3):
            tag = "".join("S" if x else "-" for x in shv)
            add("D=3 cancel=0 T=2 shields=%s" % tag, D=3, cancel=0, T=2, J=1, shields=shv)
            add("D=3 cancel=2 cancel2=0 shields=%s" % tag, D=3, cancel=2, cancel2=0, shields=shv)
            add("D=3 cancel=1 cancel2=2 shields=%s" % tag, D=3, cancel=1, cancel2=2, shields=shv)
            for lv in (1, 2):
                add("D=3 cancel=0 toggle=(%d,%s) shields=%s" % (lv, not shv[lv], tag), D=3, cancel=0, toggle=(lv, not shv[lv]), shields=shv, J=1)
        for shv in _it.product((False, True), repeat=4):
            if sum(shv) == 1:
                tag = "".join("S" if x else "-" for x in shv)
                add("D=4 cancel=3 cancel2=0 shields=%s" % tag, D=4, cancel=3, cancel2=0, shields=shv, T=1, J=1, post0=True)
    return us


# ---- Layer A: the pure scope-chain functions on an arbitrary chain (all flags symbolic) ---------------
def chain_step(sym, cov, D):
    """A chain of D real CancelScope objects (index 0 = innermost), every cancel flag and shield flag
    symbolic: _effectively_cancelled / _parent_cancellation_is_visible_to_us equal the closed forms."""
    from symx.core import chk
    from anyio._backends._asyncio import CancelScope

    cancelled = [sym.bool("c%d" % i) for i in range(D)]
    shield = [sym.bool("s%d" % i) for i in range(D)]
    scopes = [CancelScope(shield=shield[i]) for i in range(D)]
    for i in range(D):
        scopes[i]._cancel_called = cancelled[i]
        if i + 1 < D:
            scopes[i]._parent_scope = scopes[i + 1]

    def ref_eff(k):
        # exists j >= k: cancelled[j] and no shield on k..j-1  (walking outwards from k)
        for j in range(k, D):
            if cancelled[j]:
                return True
            if shield[j]:
                return False
        return False

    for k in range(D):
        got = scopes[k]._effectively_cancelled
        chk(bool(got) == ref_eff(k), "C04:effectively_cancelled-differs-from-definition", {"level_from_inside": k})
        vis = scopes[k]._parent_cancellation_is_visible_to_us
        want = (k + 1 < D) and (not shield[k]) and ref_eff(k + 1)
        chk(bool(vis) == bool(want), "C04:parent-visibility-differs-from-definition", {"level_from_inside": k})
    cov.hit("A:cancelled-behind-shield", any(cancelled[j] and any(shield[k] for k in range(0, j)) for j in range(1, D)))
    cov.hit("A:effectively-cancelled-through-plain-ancestors", D >= 3 and ref_eff(0) and not cancelled[0] and not cancelled[1])


MUST_REACH = MUST_REACH + ["A:cancelled-behind-shield", "A:effectively-cancelled-through-plain-ancestors",
                           "non-cancellation-exception-through-cancelled-scope", "cancellation-filtered-out-of-exception-group", "foreign-cancellation-through-cancelled-scope",
                           "thread:check_cancelled-raised", "group-shielded-after-enclosing-cancel-hit-its-children"]
_units_b = units


def units(tier):  # noqa: F811
    us = _units_b(tier)
    for D in (1, 2, 3, 4, 5):
        us.append({"name": "A chain D=%d" % D, "fn": chain_step, "params": {"D": D}, "budget_s": 100, "certify": D <= 3})
    B = 240 if tier == "quick" else 1500
    for kind in ("value", "group", "group+cancel"):
        us.append({"name": "D=2 raise %s at 1 cancel=1 cancel2=0" % kind, "fn": scope_tree.scn, "budget_s": B,
                   "params": {"props": [PROP], "D": 2, "cancel": 1, "cancel2": 0, "raise_at": (1, kind), "T": 1, "J": 1}})
        us.append({"name": "D=3 raise %s at 2 cancel=1" % kind, "fn": scope_tree.scn, "budget_s": B,
                   "params": {"props": [PROP], "D": 3, "cancel": 1, "raise_at": (2, kind), "T": 1, "J": 1, "post0": False, "shields": (False, False, False)}})
    for lv, c in ((1, 1), (1, 0), (0, 0)):
        us.append({"name": "D=2 foreign cancellation (CancelledError <- OSError <- AnyIO cancel) raised at %d, cancel=%d" % (lv, c), "fn": scope_tree.scn, "budget_s": B,
                   "params": {"props": [PROP], "D": 2, "cancel": c, "raise_at": (lv, "foreign-chain"), "T": 1, "J": 1, "shields": (False, False)}})
    # the shield also holds for a worker thread asking from_thread.check_cancelled() on behalf of its (shielded) caller
    for cos in (True, False):
        us.append({"name": "thread check_cancelled, caller in shielded scope, %s scope cancelled" % ("enclosing" if cos else "that"), "fn": c14_thread.scn, "budget_s": B,
                   "params": {"n": 1, "funcs": ["chk"], "cancel": 0, "shielded_caller": True, "cancel_outside_shield": cos, "T": 1, "J": 2}})
    # a task group whose scope gets shielded AFTER an enclosing cancellation has already hit its children
    for ch in ([("B", "soon")], [("C", "task"), ("R", "soon")]):
        us.append({"name": "task group shielded after an enclosing cancel hit its children %s" % "+".join(b for b, _h in ch), "fn": tg_scn.scn, "budget_s": B,
                   "params": {"props": [PROP], "children": ch, "body": "shield-toggle", "env": ("outer",), "T": 2, "J": 1}})
    us.append({"name": "D=4 cancel=3 cancel2=0 shield-at-1", "fn": scope_tree.scn, "budget_s": B,
               "params": {"props": [PROP], "D": 4, "cancel": 3, "cancel2": 0, "shields": (False, True, False, False), "T": 1, "J": 1, "post0": True}})
    return us
