"""C10 Layer B: Semaphore / CapacityLimiter scenarios on VLoop (prim_scn.scn)."""
from __future__ import annotations

from symx.harness import prim_scn
from symx.vloop import STUBS as LOOP_STUBS

NAME = "c10_scn"
STUBS = LOOP_STUBS
ASSUMPTIONS = [
    "per task: sleep s_i, acquire (blocking / nowait), hold h_i, release; times in [0,T] ticks; cancel instant (tick, cycle offset); "
    "limiter: total_tokens = nv (nv in [0,n+1]) assigned at a symbolic instant; semaphore: foreign release() adds a permit",
]
OUTSIDE = ["more than 3 tasks, permits > 2", "uvloop, trio"]
MUST_REACH = ["contended", "cancelled-waiter", "wouldblock", "total-raised-with-waiters", "total-lowered-below-borrowed", "total-raised-after-lowered-below-borrowed", "scope-cancel-while-queued", "reacquire-rejected", "foreign-release-rejected",
              "cleanup-acquire-while-cancelled", "acquire-in-cancelled-scope"]


def units(tier):
    quick = tier == "quick"
    us = []
    B = 240 if quick else 1500
    T = 1 if quick else 2

    def add(kind, name, **p):
        p.setdefault("T", T)
        p.setdefault("J", 1 if quick else 2)
        us.append({"name": "%s %s" % (kind, name), "fn": prim_scn.scn, "params": dict(kind=kind, **p), "budget_s": B})

    for kind in ("sem", "lim"):
        for cancel in (None, 0, 1):
            for native in ((False, True) if cancel is not None else (False,)):
                add(kind, "n=2 aa cap=1 cancel=%s native=%s" % (cancel, native), n=2, modes="aa", cap=1, cancel=cancel, native=native)
        add(kind, "n=3 aaa cap=2 cancel=1", n=3, modes="aaa", cap=2, cancel=1, T=1)
        add(kind, "n=3 aaa cap=1 cancel=1 native", n=3, modes="aaa", cap=1, cancel=1, native=True, T=1)
        add(kind, "n=3 aan cap=1 cancel=0", n=3, modes="aan", cap=1, cancel=0, T=1)
        add(kind, "n=2 ca cleanup-acquire", n=2, modes="ca", cap=1, cancel=0)
        add(kind, "n=2 pa acquire-in-cancelled-scope cap=1", n=2, modes="pa", cap=1)
        add(kind, "n=2 pa acquire-in-cancelled-scope cap=2", n=2, modes="pa", cap=2)
    for cancel in (0, 1):
        add("lim", "n=2 bb on-behalf-of cap=1 cancel=%d" % cancel, n=2, modes="bb", cap=1, cancel=cancel, J=2)
    add("lim", "n=2 ba on-behalf-of cap=2 cancel=0", n=2, modes="ba", cap=2, cancel=0, J=2)
    add("lim", "n=3 bab cap=1 retotal", n=3, modes="bab", cap=1, retotal=True, T=1, J=1)
    for kind in ("sem", "lim"):
        add(kind, "created outside the loop n=2 aa cap=1 cancel=1", n=2, modes="aa", cap=1, cancel=1, adapter=True, T=1)
        add(kind, "created outside the loop n=2 an cap=1", n=2, modes="an", cap=1, adapter=True, T=1)
    add("lim", "created outside the loop n=2 aa cap=1 retotal", n=2, modes="aa", cap=1, retotal=True, adapter=True, T=1)
    add("sem", "n=2 aa fast cancel=1 native", n=2, modes="aa", cap=1, cancel=1, native=True, fast=True)
    add("sem", "n=2 aa intruder", n=2, modes="aa", cap=1, intruder=True)
    add("lim", "n=2 aa intruder", n=2, modes="aa", cap=1, intruder=True)
    add("lim", "n=2 aa reacquire", n=2, modes="aa", cap=2, reacquire=True)
    # total_tokens assignments racing with waiters and cancellation
    add("lim", "n=2 aa cap=1 retotal", n=2, modes="aa", cap=1, retotal=True)
    add("lim", "n=3 aaa cap=1 retotal", n=3, modes="aaa", cap=1, retotal=True, T=1, J=1)
    add("lim", "n=2 aa cap=1 retotal cancel=1", n=2, modes="aa", cap=1, retotal=True, cancel=1, T=1, J=1)
    add("lim", "n=3 aaa cap=2 lower-then-raise s=0", n=3, modes="aaa", cap=2, retotal=True, retotal2=True, fixed_s=True, T=1, J=0)
    if not quick:
        add("lim", "n=3 aaa cap=2 lower-then-raise", n=3, modes="aaa", cap=2, retotal=True, retotal2=True, T=1, J=0)
        add("lim", "n=3 aaa cap=2 retotal cancel=2", n=3, modes="aaa", cap=2, retotal=True, cancel=2, T=1, J=1)
        add("lim", "n=3 aaa cap=3 retotal cancel=1 native", n=3, modes="aaa", cap=3, retotal=True, cancel=1, native=True, T=1)
        add("sem", "n=3 aaa capsym<=2 cancel=2", n=3, modes="aaa", cap=2, capsym=True, cancel=2, T=1)
        add("lim", "n=2 aa eager retotal", n=2, modes="aa", cap=1, retotal=True, eager=True)
        add("sem", "n=2 aa eager cancel=1 native", n=2, modes="aa", cap=1, cancel=1, native=True, eager=True)
    return us
