"""C09: Lock -- mutual exclusion, FIFO hand-off, cancel-safe waiters.

Layer A (lock_step): one synchronous step (acquire_nowait by x / release by x) from an arbitrary
state satisfying the representation invariant.  Layer B: prim_scn.scn with kind='lock'.
"""
from __future__ import annotations

from asyncio import events

from symx.core import chk
from symx.harness import prim_scn
from symx.vloop import STUBS as LOOP_STUBS
from symx.vloop import VLoop

NAME = "c09_lock"
STUBS = LOOP_STUBS + ["Layer A: anyio._backends._asyncio.current_task replaced by a stub returning the harness-chosen task identity"]
ASSUMPTIONS = [
    "Layer A pre-states satisfy R_lock: owner None => no pending waiter; queued futures are pending or cancelled; queued tasks distinct and != owner",
    "Layer B: per task sleep s_i, acquire (blocking / nowait), hold h_i, release; times in [0,T] ticks; cancel instant (tick in [0,2T+1], cycle offset in [0,J])",
]
OUTSIDE = ["more than 3 contending tasks, queues longer than 3", "uvloop, trio"]
MUST_REACH = ["contended", "cancelled-waiter", "wouldblock", "native-cancel-while-owner-not-resumed", "scope-cancel-while-queued",
              "foreign-release-rejected", "reacquire-rejected", "blocking-reacquire-rejected-with-waiters", "cleanup-acquire-while-cancelled", "A:handoff-skips-cancelled", "A:release-by-non-owner"]


async def _idle():
    pass


def _mk_task(loop, name):
    """A real (never started) task object as identity for Layer A, so that the code under test may
    query any Task attribute."""
    from symx.vloop import VTask

    t = VTask(_idle(), loop=loop, name=name)
    t._log_destroy_pending = False
    return t


def lock_step(sym, cov, nq, owned):
    import anyio._backends._asyncio as B
    from anyio import WouldBlock

    loop = VLoop()
    events._set_running_loop(loop)
    saved = B.current_task
    made = []
    try:
        cancelled = [sym.bool("wc%d" % i) for i in range(nq)]
        # R: owner None => no pending waiter
        sym.assume(owned or all(cancelled))
        op = sym.int("op", 0, 1)  # 0 release, 1 acquire_nowait
        who = sym.int("who", 0, 2)  # 0 the owner, 1 a queued waiter (first), 2 an unrelated task
        owner = _mk_task(loop, "owner") if owned else None
        ws = [_mk_task(loop, "w%d" % i) for i in range(nq)]
        other = _mk_task(loop, "other")
        made = [t for t in [owner, other] + ws if t is not None]
        if who == 0:
            sym.assume(owned)
            me = owner
        elif who == 1:
            sym.assume(nq > 0)
            me = ws[0]
        else:
            me = other
        lock = B.Lock()
        lock._owner_task = owner
        futs = []
        for i in range(nq):
            f = loop.create_future()
            if cancelled[i]:
                f.cancel()
            futs.append(f)
            lock._waiters.append((ws[i], f))
        B.current_task = lambda: me
        if op == 0:
            try:
                lock.release()
                raised = None
            except RuntimeError as e:
                raised = e
            if who != 0:
                cov.hit("A:release-by-non-owner")
                chk(raised is not None, "release-by-non-owner-accepted")
                chk(lock._owner_task is owner and [w[1] for w in lock._waiters] == futs, "state-changed-on-reject")
            else:
                chk(raised is None, "release-by-owner-rejected")
                live = [i for i in range(nq) if not cancelled[i]]
                if live:
                    k = live[0]
                    cov.hit("A:handoff-skips-cancelled", k > 0)
                    chk(lock._owner_task is ws[k], "handoff-to-wrong-task")
                    chk(futs[k].done() and not futs[k].cancelled(), "new-owner-not-woken")
                    chk(all(not futs[i].done() for i in live[1:]), "extra-waiter-woken")
                    chk([w[1] for w in lock._waiters] == futs[k + 1:], "queue-not-fifo")
                else:
                    chk(lock._owner_task is None and not lock.locked(), "not-unlocked-after-release")
                    chk(len(lock._waiters) == 0, "cancelled-waiters-left")
        else:
            try:
                lock.acquire_nowait()
                raised = None
            except (WouldBlock, RuntimeError) as e:
                raised = e
            if who == 0:
                chk(isinstance(raised, RuntimeError), "reacquire-accepted", repr(raised))
            elif owned or nq > 0:
                chk(isinstance(raised, WouldBlock), "nowait-barged", repr(raised))
            else:
                chk(raised is None and lock._owner_task is me, "nowait-refused-on-free-lock")
            if raised is not None:
                chk(lock._owner_task is owner and [w[1] for w in lock._waiters] == futs, "state-changed-on-reject")
        # R again
        pend = [f for (_t, f) in lock._waiters if not f.done()]
        chk(lock._owner_task is not None or not pend, "R:free-lock-with-pending-waiter")
        chk(all((not f.done()) or f.cancelled() for (_t, f) in lock._waiters), "R:resolved-future-queued")
        chk(lock.statistics().tasks_waiting == len(lock._waiters) and lock.statistics().locked == (lock._owner_task is not None), "statistics")
    finally:
        B.current_task = saved
        events._set_running_loop(None)
        for t in made:
            t.get_coro().close()
        loop._ready.clear()
        loop.close()


def units(tier):
    quick = tier == "quick"
    us = []
    for nq in range(0, 4):
        for owned in (False, True):
            us.append({"name": "A nq=%d owned=%s" % (nq, owned), "fn": lock_step, "params": {"nq": nq, "owned": owned}, "budget_s": 60, "certify": nq <= 2})
    B = 240 if quick else 1500
    T = 1 if quick else 2

    def add(name, **p):
        p.setdefault("T", T)
        p.setdefault("J", 2)
        us.append({"name": name, "fn": prim_scn.scn, "params": dict(kind="lock", **p), "budget_s": B})

    # two tasks: every cancel target / kind; fast_acquire on and off
    for fast in (False, True):
        for cancel in (None, 0, 1):
            for native in ((False, True) if cancel is not None else (False,)):
                add("B n=2 aa fast=%s cancel=%s native=%s" % (fast, cancel, native), n=2, modes="aa", cancel=cancel, native=native, fast=fast)
    add("B n=2 an", n=2, modes="an", cancel=0)
    add("B n=2 aa eager cancel=1 native (quick)", n=2, modes="aa", cancel=1, native=True, eager=True, T=1)
    add("B n=2 na", n=2, modes="na", cancel=1)
    add("B n=2 intruder", n=2, modes="aa", intruder=True)
    add("B n=2 pa acquire-in-cancelled-scope", n=2, modes="pa")
    add("B n=2 pa acquire-in-cancelled-scope fast", n=2, modes="pa", fast=True)
    add("B n=2 ca cleanup-acquire", n=2, modes="ca", cancel=0)
    add("B n=2 ac cleanup-acquire", n=2, modes="ac", cancel=1)
    add("B n=3 aca cleanup-acquire", n=3, modes="aca", cancel=1, T=1)
    add("B n=2 reacquire", n=2, modes="aa", reacquire=True, cancel=1)
    add("B lock created outside the loop n=2 aa cancel=1", n=2, modes="aa", cancel=1, adapter=True, T=1)
    add("B lock created outside the loop n=2 an reacquire", n=2, modes="an", reacquire=True, adapter=True, T=1)
    add("B n=3 reacquire with waiters", n=3, modes="aaa", reacquire=True, T=1, J=0)
    # three tasks
    for cancel in (0, 1, 2):
        for native in (False, True):
            add("B n=3 aaa cancel=%d native=%s" % (cancel, native), n=3, modes="aaa", cancel=cancel, native=native, T=1, J=1 if quick else 2)
    if not quick:
        # three tasks, every cancel target and kind, both acquire modes, longer times
        for modes in ("aaa", "aan", "ana", "aca", "apa"):
            for cancel in (0, 1, 2):
                for native in (False, True):
                    if modes[cancel] in "np" and native:
                        continue
                    add("B n=3 %s cancel=%d native=%s J=2" % (modes, cancel, native), n=3, modes=modes, cancel=cancel, native=native, T=1, J=2)
        for cancel in (0, 1):
            for native in (False, True):
                add("B n=2 aa T=3 cancel=%d native=%s" % (cancel, native), n=2, modes="aa", cancel=cancel, native=native, T=3, J=2)
                add("B n=2 aa rounds=2 cancel=%d native=%s" % (cancel, native), n=2, modes="aa", cancel=cancel, native=native, rounds=2, T=1, J=2)
        add("B n=4 aaaa cancel=1", n=4, modes="aaaa", cancel=1, T=1, J=0)
        add("B n=4 aaaa cancel=2 native", n=4, modes="aaaa", cancel=2, native=True, T=1, J=0)
        add("B n=3 aan cancel=1", n=3, modes="aan", cancel=1, T=1)
        add("B n=3 aaa fast cancel=1 native", n=3, modes="aaa", cancel=1, native=True, fast=True, T=1)
        add("B n=2 aa rounds=2 cancel=0", n=2, modes="aa", cancel=0, rounds=2, T=1)
        add("B n=2 aa eager cancel=1 native", n=2, modes="aa", cancel=1, native=True, eager=True)
        add("B n=2 aa eager cancel=0", n=2, modes="aa", cancel=0, eager=True)
    if not quick:
        add("B n=4 aaaa cancel=1", n=4, modes="aaaa", cancel=1, T=1, J=1)
        add("B n=4 aaaa cancel=2 native", n=4, modes="aaaa", cancel=2, native=True, T=1, J=1)
        add("B n=4 anca cancel=2", n=4, modes="anca", cancel=2, T=1, J=1)
    return us
