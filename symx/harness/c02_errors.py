"""C02: task group errors -- siblings cancelled, every exception surfaces exactly once (tg_scn.scn, clauses C02:*)."""
from symx.harness import tg_scn
from symx.vloop import STUBS as LOOP_STUBS

NAME = "c02_errors"
PROP = "C02"
STUBS = LOOP_STUBS
ASSUMPTIONS = ["children/body/environment as described in tg_scn; 'exit' is the first instruction after the `async with` block (a finally clause around it)"]
OUTSIDE = ["more than 3 children, nesting depth > 2", "uvloop, trio"]
MUST_REACH = ["group-raised", "two-failures", "failure-from-cleanup", "child-cancelled", "child-returned", "external-spawn-accepted", "enclosing-scope-cancelled-during-exit-wait"]


def units(tier):
    quick = tier == "quick"
    us = []
    B = 240 if quick else 1500

    def add(name, children, **p):
        p.setdefault("T", 1)
        p.setdefault("J", 1)
        p["props"] = [PROP]
        p["children"] = children
        us.append({"name": name, "fn": tg_scn.scn, "params": p, "budget_s": B})

    add("R+B group-cancel", [("R", "task"), ("B", "task")], env=("group",))
    add("R+C outer-cancel", [("R", "task"), ("C", "soon")], env=("outer",))
    add("E+C", [("E", "task"), ("C", "task")])
    add("C host-native x2", [("C", "task")], env=("host", "host"), J=2)
    add("C+B host-native body-fall", [("C", "soon"), ("B", "task")], env=("host",), J=2)
    add("S+R group-cancel", [("S", "task"), ("R", "soon")], env=("group",))
    add("X+B body-raise", [("X", "task"), ("B", "soon")], body="raise")
    add("G+B body-cancel", [("G", "soon"), ("B", "task")], body="cancel")
    add("L+E", [("L", "soon"), ("E", "task")])
    add("N group-cancel", [("N", "task")], env=("group",))
    add("B start + R handle0-cancel", [("B", "task"), ("R", "start")], env=("handle0", "group"))
    add("E, external spawn of a blocker", [("E", "task")], env=("spawn",), ext="B", J=3)
    add("X, external spawn of a blocker, group-cancel", [("X", "task")], env=("spawn", "group"), ext="B", J=2)
    add("C group-cancel then outer-cancel", [("C", "task")], env=("group", "outer"), J=1)
    add("C+R body-cancel then outer-cancel", [("C", "task"), ("R", "soon")], body="cancel", env=("outer",), J=2)
    add("E+E", [("E", "task"), ("E", "soon")])
    add("E+X", [("E", "task"), ("X", "soon")])
    add("X+X outer-cancel", [("X", "task"), ("X", "soon")], env=("outer",))
    add("E start + X", [("X", "soon"), ("E", "start")])
    add("X start group-cancel", [("B", "soon"), ("X", "start")], env=("group",))
    add("E+B body-raise", [("E", "task"), ("B", "soon")], body="raise")
    add("E+H (sibling in a shielded section when the failure happens)", [("E", "task"), ("H", "soon")], T=2)
    add("E+H, group scope shielded", [("E", "task"), ("H", "soon")], T=2, tg_shield=True)
    add("X+B body-raise, group scope shielded", [("X", "task"), ("B", "soon")], body="raise", tg_shield=True)
    add("R+C outer-cancel, enclosing scope shielded", [("R", "task"), ("C", "soon")], env=("outer",), outer_shield=True)
    add("C group-cancel then outer-cancel, enclosing scope shielded", [("C", "task")], env=("group", "outer"), J=1, outer_shield=True)
    add("B+B body-fall outer-cancel, enclosing scope shielded", [("B", "task"), ("B", "soon")], env=("outer",), outer_shield=True)
    for depth in (1, 2, 3):
        add("R+B body cancels the group and awaits through %d re-raising wrapper layer(s)" % depth, [("R", "task"), ("B", "soon")], body="cancel-rewrap", rewrap=depth)
    for kind in ("base", "falsy"):
        add("E+X exc=%s" % kind, [("E", "task"), ("X", "soon")], exc=kind)
        add("E+B body-raise exc=%s" % kind, [("E", "task"), ("B", "soon")], body="raise", exc=kind)
        add("B+B body-raise exc=%s" % kind, [("B", "task"), ("B", "soon")], body="raise", exc=kind)
        add("X start group-cancel exc=%s" % kind, [("B", "soon"), ("X", "start")], env=("group",), exc=kind)
    if not quick:
        add("C+C+E", [("C", "task"), ("C", "soon"), ("E", "task")], J=2)
        add("C host-native x2 eager", [("C", "task")], env=("host", "host"), J=2, eager=True)
        add("G+L+B outer", [("G", "soon"), ("L", "soon"), ("B", "task")], env=("outer",))
        add("N+E", [("N", "task"), ("E", "soon")], J=2)
        add("R+B child0-native", [("B", "task"), ("R", "task")], env=("child0",), J=2)
        add("R+B group-cancel T=2", [("R", "task"), ("B", "task")], env=("group",), T=2, J=2)
    if not quick:
        # the full behaviour x behaviour matrix (two children) under each kind of cancellation
        behs = ["R", "E", "B", "C", "S", "X", "G", "L", "W", "N"]
        for b1 in behs:
            for b2 in behs:
                for env in ((), ("group",), ("outer",)):
                    if not env and (b1 in "BCSXW" or b2 in "BCSXW") and "E" not in (b1, b2):
                        continue  # nothing would ever end a blocker
                    us.append({"name": "matrix %s+%s env=%s" % (b1, b2, ",".join(env) or "-"), "fn": tg_scn.scn,
                               "params": {"props": [PROP], "children": [(b1, "task"), (b2, "soon")], "env": env, "T": 1, "J": 2}, "budget_s": 900})
        for b3 in ("R", "E", "C"):
            us.append({"name": "three R+B+%s group-cancel T=2" % b3, "fn": tg_scn.scn,
                       "params": {"props": [PROP], "children": [("R", "task"), ("B", "soon"), (b3, "task")], "env": ("group",), "T": 2, "J": 1}, "budget_s": 1500})
        for kind in ("base", "falsy"):
            for b1 in ("E", "X", "C"):
                for b2 in ("E", "X", "H"):
                    for body in ("fall", "raise"):
                        us.append({"name": "exc=%s %s+%s body=%s" % (kind, b1, b2, body), "fn": tg_scn.scn, "budget_s": 900,
                                   "params": {"props": [PROP], "children": [(b1, "task"), (b2, "soon")], "body": body, "exc": kind, "T": 1, "J": 1,
                                              "env": ("group",) if "E" not in (b1, b2) and body == "fall" else ()}})
        # every quick shape again with longer sleeps / more cycle offsets, and on the eager task factory
        base = [u for u in us if u["params"].get("T", 1) == 1 and not u["params"].get("eager")]
        for u in base:
            for (T, J, eager) in ((2, 2, False), (1, 2, True)):
                p = dict(u["params"], T=T, J=J, eager=eager)
                us.append({"name": u["name"] + " T=%d J=%d%s" % (T, J, " eager" if eager else ""), "fn": u["fn"], "params": p, "budget_s": 1500})
    return us
