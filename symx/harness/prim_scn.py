"""Shared Layer-B scenario for Lock / Semaphore / CapacityLimiter (C09, C10).

N tasks, each: sleep s_i; acquire (blocking or *_nowait); hold h_i; release.  Cancels of a chosen
task's scope (or a native Task.cancel()) at a symbolic instant (tick t, cycle offset j).  For the
limiter an environment action assigns total_tokens at a symbolic instant.

Oracle is written over the observation log only (independent of anyio).
"""
from __future__ import annotations

import asyncio

from symx.core import Violation, chk
from symx.vloop import CycleBudget, Deadlock, VLoop


def scn(sym, cov, kind, n, modes, cancel=None, native=False, fast=False, eager=False, T=2, J=2, cap=1,
        retotal=False, retotal2=False, fixed_s=False, intruder=False, reacquire=False, rounds=1, capsym=False, adapter=False):
    """kind: 'lock' | 'sem' | 'lim';  modes[i]: 'a' blocking acquire, 'n' nowait, 'b' (limiter) acquire_on_behalf_of(an object)
    cancel: index of the task to cancel or None;  cap: permits (sem initial value / limiter total)
    retotal: limiter only -- assign total_tokens = nv at a symbolic instant
    intruder: an extra task calls release() without holding at a symbolic instant
    reacquire: task 0 tries to acquire again while holding
    adapter: the primitive is instantiated OUTSIDE the event loop (LockAdapter / SemaphoreAdapter / CapacityLimiterAdapter)"""
    import anyio
    from anyio import CancelScope, WouldBlock

    loop = VLoop(eager=eager)
    s = [0] * n if fixed_s else [sym.int("s%d" % i, 0, T) for i in range(n)]
    h = [sym.int("h%d" % i, 0, T) for i in range(n)]
    if cancel is not None:
        ct = sym.int("ct", 0, 2 * T + 1)
        cj = sym.int("cj", 0, J)
    if capsym:
        cap = sym.int("cap", 1, cap)
    if retotal:
        rt = sym.int("rt", 0, 2 * T + 1)
        rj = sym.int("rj", 0, J)
        nv = sym.int("nv", 0, n + 1)
    if retotal2:
        rt2 = sym.int("rt2", 0, 2 * T + 2)
        nv2 = sym.int("nv2", 1, n)
    if intruder:
        it = sym.int("it", 0, 2 * T + 1)

    waiting: list = []  # task indices inside acquire(), in call order
    holders: list = []
    viol: list = []
    grants: list = []  # (i, ahead-at-grant)
    outcome: dict = {}  # (i, round) -> 'got' | 'cancelled' | 'wouldblock'
    tasks: dict = {}
    state = {"total": cap, "lowered": False}

    def bad(clause, detail=None):
        viol.append((clause, detail))

    def capacity():
        return state["total"]

    def mk_prim():
        if kind == "lock":
            return anyio.Lock(fast_acquire=fast)
        if kind == "sem":
            return anyio.Semaphore(cap, fast_acquire=fast)
        return anyio.CapacityLimiter(cap)

    prim0 = mk_prim() if adapter else None
    if adapter:
        chk(type(prim0).__name__.endswith("Adapter"), "harness-error:expected-an-adapter", type(prim0).__name__)

    async def main():
        prim = prim0 if adapter else mk_prim()

        def owner_ok(i):
            if kind == "lock":
                st = prim.statistics()
                return st.locked and st.owner is not None and st.owner.id == id(tasks[i])
            if kind == "lim":
                return any(b is borrower(i) for b in prim.statistics().borrowers)
            return True

        class _Borrower:
            pass

        objs = [_Borrower() for _ in range(n)]

        def borrower(i):
            return objs[i] if modes[i] == "b" else tasks[i]

        def free_permits():
            if kind == "lock":
                return 0 if prim.locked() else 1
            if kind == "sem":
                return prim.value
            return prim.available_tokens

        def already_owns(a):
            """a task that is still inside acquire() but has the permit already (it took it without waiting and is in its
            post-acquire yield, however many cycles that takes) is not "ahead in the queue" of anybody"""
            if kind == "lock":
                st_ = prim.statistics()
                return st_.owner is not None and a in tasks and st_.owner.id == id(tasks[a])
            if kind == "lim":
                return any(b is borrower(a) for b in prim.statistics().borrowers)
            # a semaphore does not say who holds its permits: if more permits are out than acquire() calls have returned,
            # some task in `waiting` owns one already and the wait order of the others cannot be told from outside
            return (state["total"] - prim.value) > len(holders) + 1

        def on_grant(i, r):
            ahead = [a for a in waiting[: waiting.index(i)] if not already_owns(a)] if i in waiting else []
            if i in waiting:
                waiting.remove(i)
            grants.append((i, r, ahead))
            # a permit is granted only when one is actually free
            if len(holders) >= capacity():
                if state.get("credit", 0) > 0:
                    state["credit"] -= 1  # token was handed over before the total was lowered
                else:
                    bad("over-grant", {"holders": list(holders), "total": capacity(), "to": i})
            holders.append(i)
            if not owner_ok(i):
                bad("acquire-returned-to-non-owner", i)
            # reported count = true count: tasks between acquire-return and release, plus tasks that already
            # own a token but have not yet returned from acquire() (they are still in `waiting`)
            if kind == "lim" and not (len(holders) <= prim.borrowed_tokens <= len(holders) + len(waiting)):
                bad("borrowed_tokens!=holders", {"reported": prim.borrowed_tokens, "holders": list(holders), "in_acquire": list(waiting)})

        async def worker(i, scope):
            tasks[i] = asyncio.current_task()
            try:
                await worker_body(i, scope)
            except asyncio.CancelledError:
                # a native cancel issued by the environment: absorb it so the siblings keep running
                if native and i == cancel and state.get("native_fired"):
                    asyncio.current_task().uncancel()
                else:
                    raise

        async def cleanup_worker(i, scope):
            # the classic pattern: work inside a cancellable scope, and a shielded cleanup that needs the
            # primitive -- the waiter then has a pending native cancellation request while it is queued
            with scope:
                try:
                    await anyio.sleep(s[i])
                finally:
                    with CancelScope(shield=True):
                        cov.hit("cleanup-acquire-while-cancelled", scope.cancel_called)
                        waiting.append(i)
                        try:
                            await prim.acquire()
                        except BaseException:
                            # (only a native Task.cancel() gets through the shield)
                            if i in waiting:
                                waiting.remove(i)
                            outcome[(i, 0)] = "cancelled"
                            raise
                        on_grant(i, 0)
                        outcome[(i, 0)] = "got"
                        try:
                            await anyio.sleep(h[i])
                        finally:
                            holders.remove(i)
                            prim.release()

        async def worker_body(i, scope):
            if modes[i] == "c":
                return await cleanup_worker(i, scope)
            with scope:
                for r in range(rounds):
                    await anyio.sleep(s[i])
                    if modes[i] == "n":
                        others_waiting = prim.statistics().tasks_waiting
                        try:
                            prim.acquire_nowait()
                        except WouldBlock:
                            outcome[(i, r)] = "wouldblock"
                            if kind != "sem" and free_permits() > 0 and others_waiting == 0 and len(holders) < capacity():
                                bad("nowait-refused-with-free-permit", i)
                            continue
                        if kind == "lock" and (holders or others_waiting):
                            bad("nowait-barged", {"holders": list(holders), "waiting": others_waiting})
                        if kind == "lim" and others_waiting:
                            bad("nowait-barged", {"waiting": others_waiting})
                        waiting.append(i)
                        on_grant(i, r)
                    else:
                        if modes[i] == "p":
                            scope.cancel()  # the caller's scope is already cancelled when acquire() is called
                            cov.hit("acquire-in-cancelled-scope")
                        waiting.append(i)
                        try:
                            if modes[i] == "b":
                                await prim.acquire_on_behalf_of(objs[i])
                            else:
                                await prim.acquire()
                        except BaseException as exc_:
                            if i in waiting:
                                waiting.remove(i)
                            outcome[(i, r)] = "cancelled"
                            if i in holders:
                                bad("cancelled-acquire-left-holder", i)
                            if not isinstance(exc_, asyncio.CancelledError):
                                bad("acquire-raised-internal-error", repr(exc_))
                            if kind == "lim" and any(b is borrower(i) for b in prim.statistics().borrowers):
                                bad("cancelled-acquire-left-token-borrowed", i)
                            raise
                        on_grant(i, r)
                    outcome[(i, r)] = "got"
                    try:
                        if reacquire and i == 0:
                            try:
                                if kind == "lock":
                                    prim.acquire_nowait()
                                    bad("reacquire-accepted", i)
                                elif kind == "lim":
                                    prim.acquire_nowait()
                                    bad("double-borrow-accepted", i)
                            except RuntimeError:
                                cov.hit("reacquire-rejected")
                            except WouldBlock:
                                bad("reacquire-wouldblock-instead-of-error", i)
                            if kind in ("lock", "lim"):
                                # the blocking variant too (also while other tasks are queued behind the owner)
                                queued = prim.statistics().tasks_waiting
                                with anyio.move_on_after(1) as probe:
                                    try:
                                        await prim.acquire()
                                        bad("blocking-reacquire-accepted", {"queued": queued})
                                    except RuntimeError:
                                        cov.hit("blocking-reacquire-rejected-with-waiters", queued > 0)
                                if probe.cancelled_caught:
                                    bad("blocking-reacquire-queued-behind-itself", {"queued": queued})
                        await anyio.sleep(h[i])
                    finally:
                        holders.remove(i)
                        if modes[i] == "b":
                            prim.release_on_behalf_of(objs[i])
                        else:
                            prim.release()

        async def intruder_task():
            await anyio.sleep(it)
            before = (list(holders), free_permits())
            try:
                prim.release()
            except RuntimeError:
                cov.hit("foreign-release-rejected")
                return
            if kind == "lock":
                bad("release-by-non-owner-accepted")
            elif kind == "lim":
                bad("release-by-non-borrower-accepted")
            else:
                state["total"] += 1  # a semaphore without max_value may be released by anyone: one more permit exists

        scopes = [CancelScope() for _ in range(n)]

        def fire_cancel():
            if native:
                t = tasks.get(cancel)
                if t is not None and not t.done():
                    state["native_fired"] = True
                    cov.hit("native-cancel-while-owner-not-resumed",
                            kind == "lock" and prim.statistics().owner is not None and prim.statistics().owner.id == id(t) and cancel not in holders)
                    t.cancel()
            else:
                cov.hit("scope-cancel-while-queued", cancel in waiting)
                scopes[cancel].cancel()

        def fire_total():
            if nv < state["total"]:
                state["lowered"] = True
                state["credit"] = prim.borrowed_tokens - len(holders)
            cov.hit("total-raised-with-waiters", nv > state["total"] and len(waiting) > 0)
            cov.hit("total-lowered-below-borrowed", nv < len(holders))
            state["total"] = nv
            prim.total_tokens = nv

        if cancel is not None:
            loop.env_at(ct, cj, fire_cancel)
        if retotal:
            loop.env_at(rt, rj, fire_total)

            def restore():
                # late in the run at least one token exists again, so that nobody is left waiting for a
                # permit that cannot exist (total 0 forever would be a legitimate deadlock)
                if state["total"] < 1:
                    state["total"] = 1
                    prim.total_tokens = 1

            loop.env_at(2 * T + 3, 0, restore)
            if retotal2:
                def fire_total2():
                    if nv2 < state["total"]:
                        state["lowered"] = True
                        state["credit"] = prim.borrowed_tokens - len(holders)
                    cov.hit("total-raised-after-lowered-below-borrowed", nv2 > state["total"] and len(holders) > state["total"] and len(waiting) > 0)
                    state["total"] = nv2
                    prim.total_tokens = nv2

                loop.env_at(rt2, 0, fire_total2)
        try:
            async with anyio.create_task_group() as tg:
                for i in range(n):
                    tg.start_soon(worker, i, scopes[i])
                if intruder:
                    tg.start_soon(intruder_task)
        except asyncio.CancelledError:
            if not native:
                raise
        except BaseExceptionGroup as eg_:
            bad("task-failed-with-unexpected-error", [repr(x) for x in eg_.exceptions])
        # final state
        if kind == "lock":
            st = prim.statistics()
            if prim.locked() or st.tasks_waiting:
                bad("not-idle-at-end", {"locked": prim.locked(), "waiting": st.tasks_waiting})
        elif kind == "sem":
            if prim.value != state["total"] or prim.statistics().tasks_waiting:
                bad("not-idle-at-end", {"value": prim.value, "want": state["total"], "waiting": prim.statistics().tasks_waiting})
        else:
            st = prim.statistics()
            if st.borrowed_tokens or st.tasks_waiting or prim.available_tokens != prim.total_tokens:
                bad("not-idle-at-end", {"borrowed": st.borrowed_tokens, "waiting": st.tasks_waiting})

    try:
        loop.run(main(), max_cycles=300)
    except Deadlock:
        raise Violation("liveness:Deadlock", {"waiting": list(waiting), "holders": list(holders)})
    except CycleBudget:
        raise Violation("liveness:CycleBudget")
    chk(not viol, viol[0][0] if viol else "", viol)
    # FIFO: whoever was ahead of a grantee in the wait order must never have been granted afterwards
    # for that wait (i.e. it was cancelled)
    order = [g[0] for g in grants]
    for idx, (i, r, ahead) in enumerate(grants):
        for a in ahead:
            # a was waiting before i and i got the permit first: a's wait must have ended cancelled
            later = [g for g in grants[idx + 1:] if g[0] == a]
            if kind != "lock" and modes[i] == "n":
                # a *_nowait grant is logged at once while a blocking acquirer that already took its
                # permit is still in its post-acquire yield; Semaphore.acquire_nowait may also barge
                continue
            chk(not later or rounds > 1, "fifo-overtaken", {"granted": i, "ahead": a})
            if not later:
                chk(any(v == "cancelled" for (ti, _r), v in outcome.items() if ti == a), "fifo-overtaken", {"granted": i, "ahead": a})
    cov.hit("contended", any(g[2] for g in grants) or len(grants) > 1)
    cov.hit("cancelled-waiter", any(v == "cancelled" for v in outcome.values()))
    cov.hit("wouldblock", any(v == "wouldblock" for v in outcome.values()))
