"""C07: TaskGroup.start() readiness handshake.

Layer B on VLoop.  One start()-child with a symbolic script, optional sibling, symbolic cancel
instants for the caller's scope / the group's scope (tick + cycle offset), scope or native cancel.
Real code: TaskGroup.start/_spawn/task_done/__aexit__, _AsyncioTaskStatus.started, TaskHandle, CancelScope.
"""
from __future__ import annotations

import asyncio

from symx.core import Violation, chk
from symx.vloop import STUBS as LOOP_STUBS
from symx.vloop import CycleBudget, Deadlock, VLoop

NAME = "c07_start"
STUBS = LOOP_STUBS
ASSUMPTIONS = ["child script: `pre` ticks of sleep, then started(v)/raise/return/block; after started: `post` ticks then return/raise; on cancellation: re-raise / raise E from cleanup / shielded cleanup sleep then re-raise"]
OUTSIDE = ["more than one start()-child plus one sibling", "uvloop, trio"]
MUST_REACH = ["start:returned-value", "start:child-raised-before-started", "start:child-returned-before-started", "start:caller-cancelled-before-started",
              "start:cleanup-raised-while-caller-cancelled", "start:second-started", "start:child-failed-after-started", "start:group-cancelled-before-started", "start:second-started-after-caller-cancelled"]


class E(Exception):
    pass


class EF(E):
    """an exception whose truth value is False (container-style exception with __len__)"""

    def __len__(self):
        return 0


def _leaves(eg):
    for x in eg.exceptions:
        if isinstance(x, BaseExceptionGroup):
            yield from _leaves(x)
        else:
            yield x


def scn(sym, cov, beh, cleanup, who, eager=False, native=False, return_handle=False, twice=False, T=2, J=2, sibling=False, falsy=False, precancel=None, caller_shield=False, shielded_group=False):
    """beh: 0 started then return | 1 raise before started | 2 return w/o started | 3 started then raise | 4 block forever before started
         | 5 shielded start-up (survives cancellation), then started, then return
    cleanup (on cancellation): 0 re-raise | 1 raise E | 2 shielded sleep(1) then re-raise
    who: which scope is cancelled at the symbolic instant: 'caller' | 'group' | 'none'
    falsy: the child's exceptions have truth value False
    precancel: 'caller' | 'group': that scope is cancelled by the caller itself right BEFORE it calls start()
    shielded_group: the group's own scope is shielded and lies inside an already cancelled scope; a blocking sibling is a member:
        after started() the child is an ordinary member, so its failure must still cancel the group (and the sibling)
    caller_shield: the caller of start() sits in a shielded scope (it is not hit by a cancellation of the group)"""
    import anyio
    from anyio import TASK_STATUS_IGNORED, CancelScope

    E = EF if falsy else globals()["E"]
    pre = sym.int("pre", 0, T)
    post = sym.int("post", 0, T)
    ct = sym.int("ct", 0, 2 * T)
    cj = sym.int("cj", 0, J)
    sd = sym.int("sd", 0, T) if sibling else 0
    v = sym.int("v", 0, 1000)
    loop = VLoop(eager=eager)
    raised: list = []
    log: list = []
    out: dict = {}
    st: dict = {"child_done": False, "started_called": False, "steps_after_exit": 0, "group_exited": False}

    async def child(*, task_status=TASK_STATUS_IGNORED):
        try:
            try:
                if beh == 5:
                    # a start-up that must not be interrupted: the child survives the caller's cancellation
                    with CancelScope(shield=True):
                        await anyio.sleep(pre)
                else:
                    await anyio.sleep(pre)
                if beh == 1:
                    e = E("early")
                    raised.append(e)
                    raise e
                if beh == 2:
                    return "ret"
                if beh == 4:
                    await anyio.sleep_forever()
                st["started_called"] = True
                st["started_at"] = (loop.time(), loop.cycles)
                task_status.started(v)
                if twice:
                    try:
                        task_status.started(v)
                        out["second_started"] = "accepted"
                    except RuntimeError:
                        out["second_started"] = "RuntimeError"
                await anyio.sleep(post)
                if beh == 3:
                    e = E("late")
                    raised.append(e)
                    raise e
                return "done"
            except asyncio.CancelledError:
                st["child_cancelled"] = True
                if cleanup == 1:
                    e = E("cleanup")
                    raised.append(e)
                    raise e
                if cleanup == 2:
                    with CancelScope(shield=True):
                        await anyio.sleep(1)
                raise
        finally:
            st["child_done"] = True
            if st["group_exited"]:
                st["steps_after_exit"] += 1

    async def main():
        surfaced = []
        tasks = {}
        try:
            if shielded_group:
                enclosing = CancelScope()
                enclosing.__enter__()
                enclosing.cancel()
                st["enclosing"] = enclosing
            async with anyio.create_task_group() as tg:
                if shielded_group:
                    tg.cancel_scope.shield = True

                    async def blocker():
                        try:
                            await anyio.sleep_forever()
                        finally:
                            st["blocker_done"] = True

                    tg.start_soon(blocker)
                with CancelScope(shield=caller_shield) as caller:
                    tasks["host"] = asyncio.current_task()

                    def fire():
                        st["cancel_fired"] = (loop.time(), loop.cycles, st["started_called"], st["child_done"])
                        if who == "caller":
                            if native:
                                if not st["group_exited"]:
                                    tasks["host"].cancel()
                            else:
                                caller.cancel()
                        elif who == "group":
                            tg.cancel_scope.cancel()

                    if who != "none":
                        loop.env_at(ct, cj, fire)
                    if sibling:
                        async def sib():
                            try:
                                await anyio.sleep(sd)
                                e = E("sibling")
                                raised.append(e)
                                raise e
                            finally:
                                st["sibling_done"] = True

                        tg.start_soon(sib)
                    if precancel is not None:
                        st["cancel_fired"] = (loop.time(), loop.cycles, False, False)
                        (caller if precancel == "caller" else tg.cancel_scope).cancel()
                    try:
                        r = await tg.start(child, return_handle=return_handle)
                        out["start"] = r.start_value if return_handle else r
                        out["start_child_done"] = st["child_done"]
                        out["start_started_called"] = st["started_called"]
                        if return_handle:
                            out["handle"] = r
                    except E as e:
                        surfaced.append(e)
                        out["start_exc"] = e
                        out["exc_child_done"] = st["child_done"]
                    except RuntimeError as e:
                        out["start_rt"] = str(e)
                        out["exc_child_done"] = st["child_done"]
                    except asyncio.CancelledError:
                        out["start_cancelled"] = True
                        out["exc_child_done"] = st["child_done"]
                        if native and who == "caller":
                            # a native cancel we issued ourselves: absorb it so the group can finish normally
                            asyncio.current_task().uncancel()
                        else:
                            raise
                    out["group_cancelled_after_start"] = tg.cancel_scope.cancel_called
                out["caller_caught"] = caller.cancelled_caught
        except BaseExceptionGroup as eg:
            surfaced.extend(_leaves(eg))
            out["group_raised"] = True
        except asyncio.CancelledError:
            if not (native and who == "caller"):
                raise
            out["native_cancel_left_group"] = True
            asyncio.current_task().uncancel()
        if shielded_group:
            try:
                st["enclosing"].__exit__(None, None, None)
            except BaseException:
                pass
        st["group_exited"] = True
        out["child_done_at_exit"] = st["child_done"]
        if "handle" in out:
            h = out["handle"]
            out["h_status"] = h.status.name
            if h.status.name == "FAILED":
                out["h_exc"] = h.exception
            if h.status.name == "FINISHED":
                out["h_ret"] = h.return_value
        await anyio.sleep(3)
        return surfaced

    try:
        surfaced = loop.run(main(), max_cycles=200)
    except (Deadlock, CycleBudget) as e:
        raise Violation("liveness:" + type(e).__name__)
    # ---- oracle ----------------------------------------------------------------------
    chk(st["child_done"] and out.get("child_done_at_exit"), "child-outlives-group")
    chk(st["steps_after_exit"] == 0, "child-step-after-group-exit")
    # every non-cancellation exception the child raised surfaces exactly once
    for e in raised:
        n = sum(1 for s in surfaced if s is e)
        # native Task.cancel() is outside the property's quantifier (scope cancellations): asyncio itself
        # replaces a result that is already waiting for the task by CancelledError (Task._must_cancel)
        if not native:
            chk(n >= 1, "raised-not-surfaced", str(e))
        chk(n <= 1, "raised-surfaced-twice", str(e))
    for s in surfaced:
        chk(any(s is e for e in raised) or not isinstance(s, asyncio.CancelledError), "cancellation-reported-as-error", repr(s))
        chk(any(s is e for e in raised), "foreign-exception-surfaced", repr(s))
    fired = st.get("cancel_fired")
    if "start" in out:
        cov.hit("start:returned-value")
        chk(out["start_started_called"], "start-returned-before-started")
        chk(out["start"] == v, "start-wrong-value", {"got": out["start"], "want": v})
    if "start_exc" in out:
        cov.hit("start:child-raised-before-started", str(out["start_exc"]) == "early")
        chk(not st["started_called"] or fired is not None or sibling, "start-raised-after-started")
        chk(out["exc_child_done"], "start-raised-before-child-terminated")
        if who == "none" and beh == 1:
            chk(not out.get("group_cancelled_after_start"), "group-cancelled-by-early-child-exit")
    if "start_rt" in out:
        cov.hit("start:child-returned-before-started")
        chk(beh == 2, "start-runtime-error-unexpected", out["start_rt"])
        chk(out["exc_child_done"], "start-raised-before-child-terminated")
        if who == "none":
            chk(not out.get("group_cancelled_after_start"), "group-cancelled-by-early-child-exit")
    if out.get("start_cancelled"):
        # (with a failing sibling the group may be cancelled by that failure before the environment acts)
        chk(fired is not None or sibling, "start-cancelled-without-cancel")
        # the child has fully terminated before start() re-raises -- unless started() had already
        # been called, in which case the child is an ordinary member of the group
        if not st["started_called"] or (fired is not None and not fired[2]):
            chk(out["exc_child_done"], "start-reraised-before-child-terminated")
        cov.hit("start:caller-cancelled-before-started", who == "caller" and fired is not None and not fired[2])
        cov.hit("start:group-cancelled-before-started", who == "group" and fired is not None and not fired[2])
        cov.hit("start:cleanup-raised-while-caller-cancelled", who == "caller" and any(str(e) == "cleanup" for e in raised))
    if who == "none" and precancel is None:
        chk(not out.get("start_cancelled"), "start-cancelled-without-cancel")
        if beh in (0, 3, 5):
            chk("start" in out, "start-did-not-return-value", out.keys())
        if beh == 4:
            raise Violation("liveness:should-have-deadlocked")
    if twice and "second_started" in out:
        cov.hit("start:second-started")
        # a second started() is an error unless the caller has been cancelled in the meantime
        caller_cancelled_before = fired is not None and who in ("caller", "group") and not fired[2] and "start" not in out
        if not caller_cancelled_before:
            chk(out["second_started"] == "RuntimeError", "second-started-accepted")
        elif fired is not None and fired[0] < st.get("started_at", (0, 0))[0]:
            # the caller had been cancelled (well) before the first started(): neither call is an error
            chk(out["second_started"] == "accepted", "second-started-rejected-although-caller-was-cancelled")
            cov.hit("start:second-started-after-caller-cancelled")
    cov.hit("start:child-failed-after-started", any(str(e) == "late" for e in raised))
    if "h_status" in out:
        chk(out["h_status"] in ("FINISHED", "FAILED", "CANCELLED"), "handle-not-final", out["h_status"])
        if out["h_status"] == "FAILED":
            chk(any(out["h_exc"] is e for e in raised), "handle-wrong-exception")
        if out["h_status"] == "FINISHED":
            chk(out["h_ret"] == "done", "handle-wrong-return")


def units(tier):
    us = []
    quick = tier == "quick"
    for beh in (0, 1, 2, 3, 4):
        for cleanup in (0, 1, 2):
            for who in ("none", "caller", "group"):
                if who == "none" and (cleanup != 0 or beh == 4):
                    continue
                us.append({"name": "beh=%d cleanup=%d who=%s" % (beh, cleanup, who), "fn": scn,
                           "params": {"beh": beh, "cleanup": cleanup, "who": who}, "budget_s": 240 if quick else 600})
    for who in ("caller", "group", "none"):
        us.append({"name": "twice beh=5 (shielded start-up) who=%s" % who, "fn": scn, "params": {"beh": 5, "cleanup": 0, "who": who, "twice": True}, "budget_s": 240})
    us.append({"name": "beh=5 cleanup=1 who=caller", "fn": scn, "params": {"beh": 5, "cleanup": 1, "who": "caller"}, "budget_s": 240})
    for beh in (0, 3):
        us.append({"name": "twice beh=%d who=caller" % beh, "fn": scn, "params": {"beh": beh, "cleanup": 0, "who": "caller", "twice": True}, "budget_s": 240})
        us.append({"name": "twice beh=%d who=none" % beh, "fn": scn, "params": {"beh": beh, "cleanup": 0, "who": "none", "twice": True}, "budget_s": 240})
        us.append({"name": "handle beh=%d who=group" % beh, "fn": scn, "params": {"beh": beh, "cleanup": 1, "who": "group", "return_handle": True}, "budget_s": 240})
    for beh in (0, 1, 4):
        for cleanup in (0, 1):
            us.append({"name": "native beh=%d cleanup=%d" % (beh, cleanup), "fn": scn, "params": {"beh": beh, "cleanup": cleanup, "who": "caller", "native": True}, "budget_s": 240})
    # the scope is cancelled by the caller right before start() is called (the child starts in an already cancelled scope)
    for pc in ("group", "caller"):
        for beh in (0, 4, 5):
            for cleanup in (0, 1, 2):
                us.append({"name": "precancel=%s beh=%d cleanup=%d" % (pc, beh, cleanup), "fn": scn, "budget_s": 240,
                           "params": {"beh": beh, "cleanup": cleanup, "who": "none", "precancel": pc, "T": 1, "J": 0}})
    # the caller of start() is shielded from the group's cancellation (or is not a member of the group): only the child is hit
    for beh in (0, 1, 4):
        for cleanup in (0, 1, 2):
            us.append({"name": "caller shielded, group cancelled beh=%d cleanup=%d" % (beh, cleanup), "fn": scn, "budget_s": 240,
                       "params": {"beh": beh, "cleanup": cleanup, "who": "group", "caller_shield": True, "T": 1, "J": 1}})
    for beh in (0, 3):  # (beh=1 would legitimately leave the blocking sibling running: an early exit does not cancel the group)
        us.append({"name": "shielded group inside a cancelled scope, blocking sibling, beh=%d" % beh, "fn": scn, "budget_s": 240,
                   "params": {"beh": beh, "cleanup": 0, "who": "group" if beh == 0 else "none", "shielded_group": True, "T": 1, "J": 1}})
    # exceptions whose truth value is False
    for beh, cleanup, who in ((1, 0, "none"), (3, 0, "none"), (3, 1, "caller"), (0, 1, "caller"), (4, 1, "group")):
        us.append({"name": "falsy exceptions beh=%d cleanup=%d who=%s" % (beh, cleanup, who), "fn": scn, "budget_s": 240,
                   "params": {"beh": beh, "cleanup": cleanup, "who": who, "falsy": True, "T": 1, "J": 1}})
    if not quick:
        extra = [u for u in us if any(k in u["params"] for k in ("precancel", "caller_shield", "falsy"))]
        for u in extra:
            us.append({"name": u["name"] + " eager", "fn": scn, "params": dict(u["params"], eager=True), "budget_s": 600})
            if "precancel" not in u["params"]:
                us.append({"name": u["name"] + " T=2 J=2", "fn": scn, "params": dict(u["params"], T=2, J=2), "budget_s": 900})
        for beh in (0, 1, 2, 3, 4):
            for cleanup in (0, 1, 2):
                for who in ("caller", "group"):
                    us.append({"name": "eager beh=%d cleanup=%d who=%s" % (beh, cleanup, who), "fn": scn,
                               "params": {"beh": beh, "cleanup": cleanup, "who": who, "eager": True}, "budget_s": 600})
                    us.append({"name": "T=3 J=3 beh=%d cleanup=%d who=%s" % (beh, cleanup, who), "fn": scn,
                               "params": {"beh": beh, "cleanup": cleanup, "who": who, "T": 3, "J": 3}, "budget_s": 1200})
                    # a failing sibling in the same group: its failure cancels the group while start() is pending
                    us.append({"name": "sibling beh=%d cleanup=%d who=%s" % (beh, cleanup, who), "fn": scn,
                               "params": {"beh": beh, "cleanup": cleanup, "who": who, "sibling": True, "T": 1}, "budget_s": 1200})
    return us
