"""C05: leaving a cancel scope leaves no residue in the task or the loop (scope_tree.scn, clauses C05:*)."""
from symx.harness import scope_tree
from symx.vloop import STUBS as LOOP_STUBS

NAME = "c05_residue"
PROP = "C05"
STUBS = LOOP_STUBS
ASSUMPTIONS = ["after the outermost scope: Task.cancelling() is compared with its value on entry, three plain awaits must complete, "
               "asyncio.timeout(a) around asyncio.sleep(b) must fire iff a < b (a == b is a tie), and the loop must be idle after a 40-cycle drain",
               "a 'stubborn' level swallows the cancellation nsw (symbolic, 1..3) times, so the scope owes 1..4 native uncancel() calls"]
OUTSIDE = ["nesting depth > 3", "asyncio.TaskGroup after the scope (only asyncio.timeout and Task.cancelling are exercised)", "uvloop, trio"]
MUST_REACH = ["absorbed-with-pending-uncancel", "native-timeout-fired", "scope-absorbed-own-cancel", "cancel-passed-through-inner-scope", "redelivered-after-swallow"]


def units(tier):
    quick = tier == "quick"
    us = []
    B = 240 if quick else 1500

    def add(name, **p):
        p.setdefault("T", 1)
        p.setdefault("native_after", True)
        p["props"] = [PROP]
        us.append({"name": name, "fn": scope_tree.scn, "params": p, "budget_s": B})

    add("D=1 cancel=0 stubborn", D=1, cancel=0, stubborn=0)
    add("D=1 cancel=0 child", D=1, cancel=0, in_child=True)
    add("D=2 cancel=1 stubborn=1", D=2, cancel=1, stubborn=1, shields=(False, False), J=1)
    add("D=2 cancel=0 stubborn=1", D=2, cancel=0, stubborn=1, shields=(False, False), J=1)
    add("D=2 cancel=1 cancel2=0", D=2, cancel=1, cancel2=0, J=1, post0=True, shields=(False, False))
    add("D=2 cancel=1 cancel2=0 sym shields, no native probe", D=2, cancel=1, cancel2=0, J=0, post0=True, native_after=False)
    add("D=2 cancel=1 cancel2=0 stubborn=1", D=2, cancel=1, cancel2=0, stubborn=1, shields=(False, False), J=1, post0=True)
    add("D=3 cancel=2 cancel2=0", D=3, cancel=2, cancel2=0, shields=(False, False, False), J=0 if quick else 1, post0=True)
    add("D=3 cancel=2 cancel2=0 stubborn=2", D=3, cancel=2, cancel2=0, stubborn=2, shields=(False, False, False), J=1, post0=True, native_after=False)
    add("D=2 deadline=1 cancel=0", D=2, deadlines=(1,), cancel=0, shields=(False, False), J=1, native_after=False)
    add("D=2 pre_cancel=1", D=2, pre_cancel=1, native_after=False)
    add("D=1 cancel=0 host already natively cancelled once", D=1, cancel=0, pre_native=True, J=2)
    add("D=2 cancel=1 cancel2=0 host already natively cancelled once", D=2, cancel=1, cancel2=0, pre_native=True, J=1, post0=True, shields=(False, False))
    add("D=1 deadline assigned before entry", D=1, deadlines=(0,), deadline_outside="before", native_after=False)
    add("D=1 deadline assigned after exit", D=1, deadlines=(0,), deadline_outside="after", native_after=False)
    # a natively created task cancels its creator's scope right away (eager task factory: inside the creator's step)
    for eager in (False, True):
        for lv in (0, 1):
            add("D=2 native child task cancels scope %d%s" % (lv, " eager" if eager else ""), D=2, native_child_cancel=lv, eager=eager, shields=(False, False), native_after=False)
    if not quick:
        add("D=3 cancel=1 cancel2=0 sym shields", D=3, cancel=1, cancel2=0, J=1, post0=True)
        add("D=3 cancel=2 cancel2=1 stubborn=2", D=3, cancel=2, cancel2=1, stubborn=2, shields=(False, False, False), J=1)
        add("D=2 cancel=1 stubborn=1 child eager", D=2, cancel=1, stubborn=1, shields=(False, False), in_child=True, eager=True)
        add("D=2 cancel=1 cancel2=0 T=2", D=2, cancel=1, cancel2=0, T=2, J=1, post0=True, shields=(False, False))
        add("D=2 cancel=1 cancel2=0 T=2 shielded inner", D=2, cancel=1, cancel2=0, T=2, J=1, post0=True, shields=(False, True))
    return us
