"""C12: memory object streams -- exactly-once, ordered, bounded delivery (Layer B, mem_scn.scn)."""
from __future__ import annotations

from symx.harness import mem_scn
from symx.vloop import STUBS as LOOP_STUBS

NAME = "c12_mem"
STUBS = LOOP_STUBS
ASSUMPTIONS = ["parties as described in mem_scn (own clone each, closed in finally); items are distinct ints sender*10+index; "
               "main keeps one receive clone open and drains the buffer at the end so that conservation is decidable"]
OUTSIDE = ["more than 4 parties / 2 items per sender", "uvloop, trio"]
MUST_REACH = ["A:receiver-with-pending-cancellation-skipped", "delivered", "cancelled-party", "wouldblock", "cancel-while-blocked-receive", "cancel-while-blocked-send", "sender-was-blocked"]


def units(tier):
    quick = tier == "quick"
    us = []
    # Layer A: one send_nowait / receive_nowait from an arbitrary stream state (shared with C13)
    from symx.harness.c13_mem_close import mem_close_step

    for op in ("send_nowait", "receive_nowait"):
        for (nbuf, nws, nwr) in ((0, 0, 0), (1, 0, 0), (2, 0, 0), (1, 1, 0), (0, 2, 0), (0, 0, 1), (0, 0, 2), (0, 0, 3)):
            us.append({"name": "A %s buf=%d parked=%d waiting=%d" % (op, nbuf, nws, nwr), "fn": mem_close_step,
                       "params": {"op": op, "nbuf": nbuf, "nws": nws, "nwr": nwr}, "budget_s": 60})
    B = 240 if quick else 1500

    def add(parties, buf, **p):
        p.setdefault("T", 1)
        p.setdefault("J", 2)
        p.setdefault("keep_rx", True)
        name = "%s buf=%s %s" % ("+".join(parties), buf, " ".join("%s=%s" % kv for kv in sorted(p.items()) if kv[0] not in ("T", "J", "keep_rx")))
        us.append({"name": name, "fn": mem_scn.scn, "params": dict(parties=list(parties), buf=buf, **p), "budget_s": B})

    for cancel in (None, 0, 1):
        for native in ((False, True) if cancel is not None else (False,)):
            add(["S2", "R2"], "sym", cancel=cancel, native=native)
    add(["S1", "S1", "R2"], 0, cancel=0)
    add(["S1", "S1", "R2"], 0, cancel=0, native=True)
    add(["S1", "S1", "R2"], 1, cancel=1)
    for buf in (0, 1):
        add(["S2", "R1", "R1"], buf, cancel=1)
        add(["S2", "R1", "R1"], buf, cancel=1, native=True)
    add(["s2", "R2"], "sym", cancel=1)
    add(["S2", "r2"], "sym", cancel=0)
    add(["s2", "R1", "R1"], 0, cancel=1, native=True)
    add(["S2", "R2"], "inf")
    add(["S2", "R1", "R1"], 0, cancel=1, eager=True)
    # a sibling cancels a blocked peer and performs its own operation in the same step
    add(["s2", "R1", "R1"], 0, cancel=1, cancel_by=0)
    add(["s2", "R1", "R1"], 1, cancel=1, cancel_by=0, native=True)
    add(["S2", "R1", "R1"], 0, cancel=1, cancel_by=0)
    add(["S1", "S1", "r2"], 0, cancel=0, cancel_by=2)
    add(["S1", "S1", "R2"], 0, cancel=0, cancel_by=2, native=True)
    # another task closes a party's clone while that party is blocked on it (the other clones keep the side open)
    add(["S2", "R1", "R1"], 0, close=1)
    add(["S2", "R2", "R1"], 1, close=1)
    add(["S1", "S1", "R2"], 0, close=0)
    add(["S2", "R2"], "sym", close=1)
    # the cancelled scope lies behind a shield: the party is a live receiver / sender like any other
    add(["S2", "R1", "R1"], 0, cancel=1, behind_shield=True)
    add(["S2", "R2"], "sym", cancel=1, behind_shield=True)
    add(["S1", "S1", "R2"], 0, cancel=0, behind_shield=True)
    # several tasks receiving through the same stream object (second use of the object by another task)
    add(["S2", "R1", "R1"], 0, cancel=2, share_rx=True)
    add(["S2", "R1", "R1"], 0, cancel=1, share_rx=True)
    add(["S2", "R2", "R1"], 1, cancel=2, share_rx=True)
    if not quick:
        # every 3-party combination with at least one sender and one receiver, each party cancelled in turn
        import itertools as _it

        progs = ["S1", "S2", "s2", "R1", "R2", "r2"]
        for combo in _it.combinations_with_replacement(progs, 3):
            if not any(p[0] in "Ss" for p in combo) or not any(p[0] in "Rr" for p in combo):
                continue
            for buf in (0, 1):
                for c in range(3):
                    if combo[c][0] in "sr":
                        continue  # *_nowait parties never block: nothing to cancel
                    for native in (False, True):
                        add(list(combo), buf, cancel=c, native=native)
        add(["S2", "S2", "R2", "R2"], "sym", cancel=2)
        add(["S2", "S2", "R2", "R2"], 0, cancel=0, native=True)
        add(["S1", "S1", "S1", "R2"], 1, cancel=1)
        add(["S2", "R1", "R1", "R1"], 0, cancel=1, native=True)
        add(["S2", "R2"], "sym", cancel=1, eager=True)
        add(["S2", "R1", "R1"], 0, cancel=1, native=True, eager=True)
        add(["S2", "R2"], "sym", cancel=1, T=2)
    return us
