"""C16: BufferedByteReceiveStream / TextReceiveStream / TextSendStream are transparent to chunking.

No event loop: the wrapped stream is a stub whose receive() never suspends, so every coroutine is
driven to completion by one send(None).

buffered: data and fed data are SYMBOLIC bytes (z3 sequence theory, all 256 values per byte), chunk
boundaries, n, max_bytes and the delimiter are symbolic; the call sequence is a finite case split.
text: the codecs are C code (symbolic bytes would be realised), so the text part is a solver-driven
finite case split: characters are indices into a small alphabet, split points symbolic ints.
"""
from __future__ import annotations

import codecs

from symx.core import Violation, chk

NAME = "c16_streams"
from symx.vloop import STUBS as LOOP_STUBS  # noqa: E402

STUBS = LOOP_STUBS + [
    "wrapped stream = in-memory stub: 'obj' returns the prepared chunks as they are (ObjectReceiveStream[bytes]); "
    "'byte' is a ByteReceiveStream that honours max_bytes (returns a 1..max_bytes prefix of the next chunk, keeps the rest)",
]
ASSUMPTIONS = [
    "receive_exactly(n) is called with n >= 0 and receive_until with a non-empty delimiter (documented domain)",
    "text: alphabet 'a', U+00E9, U+20AC, U+1D11E, U+FEFF; strings up to 3 characters; encodings utf-8, utf-16, utf-32, latin-1 (latin-1 restricted to its repertoire)",
]
OUTSIDE = ["byte strings longer than the stated bound, more than 3 calls in a sequence", "codec internals (C code) are executed concretely", "suspension/cancellation inside the wrapped receive() other than: one failure (fault units) / one interleaved feed_data() (feed-while-waiting units)"]
MUST_REACH = ["buf:delimiter-spans-chunks", "buf:surplus-kept", "buf:incomplete-read", "buf:delimiter-not-found", "buf:exactly-across-chunks", "buf:fed-data-first", "buf:fault-during-call", "buf:long-delimiter-mostly-in-older-chunk", "buf:fed-while-receive-pending", "buf:fed-while-receive-pending-then-surplus",
              "text:split-inside-character", "text:multi-send"]


def run(coro):
    try:
        coro.send(None)
    except StopIteration as e:
        return e.value
    raise AssertionError("wrapped stub suspended")


def run_on_loop(coro):
    """the text wrappers may pass checkpoints of their own: they are driven on a (virtual) event loop"""
    from symx.vloop import VLoop

    return VLoop().run(coro, max_cycles=200)


def _mk_stubs():
    from anyio import EndOfStream
    from anyio.abc import ByteReceiveStream, ObjectReceiveStream

    class ObjSrc(ObjectReceiveStream):
        def __init__(self, chunks, log, fault=None):
            self.chunks = list(chunks)
            self.log = log
            self.fault = fault
            self.ncalls = 0
            self.during = None  # (k, fn): fn() runs while the k-th receive() call is "suspended" (another task acts meanwhile)

        async def receive(self):
            self.ncalls += 1
            if self.during is not None and self.during[0] == self.ncalls - 1:
                self.during[1]()
            if self.fault is not None and self.fault[0] == self.ncalls - 1:
                raise self.fault[1]
            if not self.chunks:
                raise EndOfStream
            c = self.chunks.pop(0)
            self.log.append(c)
            return c

        async def aclose(self):
            pass

        def rest(self):
            return b"".join(self.chunks)

    class ByteSrc(ByteReceiveStream):
        def __init__(self, chunks, log, fault=None):
            self.chunks = list(chunks)
            self.log = log
            self.fault = fault
            self.ncalls = 0
            self.during = None

        async def receive(self, max_bytes=65536):
            self.ncalls += 1
            if self.during is not None and self.during[0] == self.ncalls - 1:
                self.during[1]()
            if self.fault is not None and self.fault[0] == self.ncalls - 1:
                raise self.fault[1]
            if not self.chunks:
                raise EndOfStream
            c = self.chunks[0]
            if len(c) > max_bytes:
                out, self.chunks[0] = c[:max_bytes], c[max_bytes:]
            else:
                out = self.chunks.pop(0)
            self.log.append(out)
            return out

        async def aclose(self):
            pass

        def rest(self):
            return b"".join(self.chunks)

    return ObjSrc, ByteSrc


def _one_call(sym, cov, s, src, op, idx, L, kind, chunks, c1, c2, feed, unread, consumed, invariant, DL=2):
    from anyio import DelimiterNotFound, EndOfStream, IncompleteRead

    if True:
        if op == "r":
            n = sym.int("n%d" % idx, -1, L + 1)
            try:
                out = run(s.receive(n))
            except ValueError:
                chk(n < 1, "receive-valueerror-for-valid-n")
                invariant("receive-valueerror")
                return consumed
            except EndOfStream:
                chk(len(unread) == 0, "end-of-stream-with-data-left")
                invariant("receive-eos")
                return consumed
            chk(n >= 1, "receive-accepted-invalid-max_bytes")
            chk(1 <= len(out) <= n, "receive-size", {"n": n, "len": len(out)})
            chk(unread[: len(out)] == out, "receive-wrong-bytes")
            cov.hit("buf:fed-data-first", feed and idx == 0 and len(out) > 0)
            cov.hit("buf:surplus-kept", kind == "obj" and len(s.buffer) > 0)
            consumed += out
        elif op == "e":
            n = sym.int("n%d" % idx, 0, L + 1)
            before = len(s.buffer)
            try:
                out = run(s.receive_exactly(n))
            except IncompleteRead:
                chk(len(unread) < n, "incomplete-read-with-enough-data", {"n": n, "available": len(unread)})
                cov.hit("buf:incomplete-read")
                invariant("exactly-incomplete")
                return consumed
            chk(len(out) == n, "receive_exactly-size", {"n": n, "len": len(out)})
            chk(unread[:n] == out, "receive_exactly-wrong-bytes")
            cov.hit("buf:exactly-across-chunks", n > before and len(chunks) > 1)
            consumed += out
        else:
            delim = sym.bytes("delim%d" % idx, DL)
            sym.assume(len(delim) >= 1)
            mb = sym.int("mb%d" % idx, 0, L + 2)
            try:
                out = run(s.receive_until(delim, mb))
            except DelimiterNotFound:
                chk(unread[:mb].find(delim) < 0, "delimiter-not-found-although-within-max_bytes", {"max_bytes": mb})
                cov.hit("buf:delimiter-not-found")
                invariant("until-notfound")
                return consumed
            except IncompleteRead:
                chk(unread.find(delim) < 0, "incomplete-read-although-delimiter-present")
                invariant("until-incomplete")
                return consumed
            pos = unread.find(delim)
            chk(pos >= 0, "receive_until-returned-without-delimiter")
            chk(out == unread[:pos], "receive_until-wrong-bytes", {"pos": pos, "len": len(out)})
            chk(out.find(delim) < 0, "receive_until-includes-delimiter")
            # did the delimiter straddle a chunk boundary?
            cov.hit("buf:delimiter-spans-chunks", len(delim) >= 2 and len(chunks) > 1 and any(pos < b < pos + len(delim) for b in (c1, c2)))
            cov.hit("buf:long-delimiter-mostly-in-older-chunk", len(delim) == 3 and len(chunks) > 1 and any(pos + 2 == b for b in (c1, c2)))
            consumed += out + delim
    return consumed


class _Fault(Exception):
    pass


def buffered(sym, cov, kind, calls, L, feed=False, fault=None, DL=2, FL=2):
    """kind: 'obj' | 'byte'; calls: string over {'r','e','u'} = receive / receive_exactly / receive_until"""
    from anyio import DelimiterNotFound, EndOfStream, IncompleteRead
    from anyio.streams.buffered import BufferedByteReceiveStream

    ObjSrc, ByteSrc = _mk_stubs()
    data = sym.bytes("data", L)
    c1 = sym.int("c1", 0, L)
    c2 = sym.int("c2", 0, L)
    sym.assume(c1 <= c2)
    sym.assume(c2 <= len(data))
    chunks = [c for c in (data[:c1], data[c1:c2], data[c2:]) if len(c) > 0]
    pulled: list = []  # what the wrapped stream has handed out so far, in order (+ fed data at feed time)
    flt = None
    if fault is not None:
        # the wrapped receive() fails once, on its fk-th call: a cancellation of the caller while it waits
        # for more data ('cancel') or a transport error ('error'); afterwards the stream works again
        import asyncio

        fk = sym.int("fk", 0, 3)
        flt = (fk, asyncio.CancelledError() if fault == "cancel" else _Fault())
    src = (ObjSrc if kind == "obj" else ByteSrc)(chunks, pulled, flt)
    s = BufferedByteReceiveStream(src)
    consumed = b""

    def logical():
        return b"".join(pulled)

    def invariant(where):
        # nothing dropped, duplicated or reordered: handed-out bytes (+ consumed delimiters) followed by the
        # buffer are exactly the bytes taken from the wrapped stream / fed so far
        chk(consumed + s.buffer == logical(), "prefix-property", where)

    if feed:
        fed = sym.bytes("fed", FL)
        s.feed_data(fed)
        pulled.append(fed)
        invariant("feed")
    for idx, op in enumerate(calls):
        unread = s.buffer + src.rest()  # everything a correct call may still see, in order
        if flt is not None:
            import asyncio

            try:
                consumed = _one_call(sym, cov, s, src, op, idx, L, kind, chunks, c1, c2, feed, unread, consumed, invariant, DL)
                invariant(op)
            except (asyncio.CancelledError, _Fault):
                # a call that fails consumes nothing: everything taken so far is still in the buffer
                cov.hit("buf:fault-during-call", len(s.buffer) > 0)
                invariant("fault")
            continue
        if op == "r":
            n = sym.int("n%d" % idx, -1, L + 1)
            try:
                out = run(s.receive(n))
            except ValueError:
                chk(n < 1, "receive-valueerror-for-valid-n")
                invariant("receive-valueerror")
                continue
            except EndOfStream:
                chk(len(unread) == 0, "end-of-stream-with-data-left")
                invariant("receive-eos")
                continue
            chk(n >= 1, "receive-accepted-invalid-max_bytes")
            chk(1 <= len(out) <= n, "receive-size", {"n": n, "len": len(out)})
            chk(unread[: len(out)] == out, "receive-wrong-bytes")
            cov.hit("buf:fed-data-first", feed and idx == 0 and len(out) > 0)
            cov.hit("buf:surplus-kept", kind == "obj" and len(s.buffer) > 0)
            consumed += out
        elif op == "e":
            n = sym.int("n%d" % idx, 0, L + 1)
            before = len(s.buffer)
            try:
                out = run(s.receive_exactly(n))
            except IncompleteRead:
                chk(len(unread) < n, "incomplete-read-with-enough-data", {"n": n, "available": len(unread)})
                cov.hit("buf:incomplete-read")
                invariant("exactly-incomplete")
                continue
            chk(len(out) == n, "receive_exactly-size", {"n": n, "len": len(out)})
            chk(unread[:n] == out, "receive_exactly-wrong-bytes")
            cov.hit("buf:exactly-across-chunks", n > before and len(chunks) > 1)
            consumed += out
        else:
            delim = sym.bytes("delim%d" % idx, DL)
            sym.assume(len(delim) >= 1)
            mb = sym.int("mb%d" % idx, 0, L + 2)
            try:
                out = run(s.receive_until(delim, mb))
            except DelimiterNotFound:
                chk(unread[:mb].find(delim) < 0, "delimiter-not-found-although-within-max_bytes", {"max_bytes": mb})
                cov.hit("buf:delimiter-not-found")
                invariant("until-notfound")
                continue
            except IncompleteRead:
                chk(unread.find(delim) < 0, "incomplete-read-although-delimiter-present")
                invariant("until-incomplete")
                continue
            pos = unread.find(delim)
            chk(pos >= 0, "receive_until-returned-without-delimiter")
            chk(out == unread[:pos], "receive_until-wrong-bytes", {"pos": pos, "len": len(out)})
            chk(out.find(delim) < 0, "receive_until-includes-delimiter")
            # did the delimiter straddle a chunk boundary?
            cov.hit("buf:delimiter-spans-chunks", len(delim) >= 2 and len(chunks) > 1 and any(pos < b < pos + len(delim) for b in (c1, c2)))
            cov.hit("buf:long-delimiter-mostly-in-older-chunk", len(delim) == 3 and len(chunks) > 1 and any(pos + 2 == b for b in (c1, c2)))
            consumed += out + delim
        invariant(op)


def buffered_feed_during(sym, cov, kind, calls, L):
    """feed_data() called by another task WHILE a receive()/receive_exactly() call is waiting for the wrapped stream
    (modelled as an action inside the wrapped stub's k-th receive(), k symbolic).  Stream bytes are 1..L, fed bytes
    101.., all distinct, lengths / chunk boundaries / n symbolic: after draining the stream to its end the bytes handed
    out must be an order-preserving merge of both sources -- nothing dropped, duplicated or reordered."""
    from anyio import EndOfStream, IncompleteRead
    from anyio.streams.buffered import BufferedByteReceiveStream

    ObjSrc, ByteSrc = _mk_stubs()
    dl = sym.realize(sym.int("dl", 0, L))
    data = bytes(range(1, L + 1))[:dl]
    c1 = sym.int("c1", 0, L)
    c2 = sym.int("c2", 0, L)
    sym.assume(c1 <= c2)
    sym.assume(c2 <= dl)
    c1 = sym.realize(c1)
    c2 = sym.realize(c2)
    chunks = [c for c in (data[:c1], data[c1:c2], data[c2:]) if len(c) > 0]
    fl = sym.realize(sym.int("fl", 1, 2))
    fed = bytes([101, 102])[:fl]
    fk = sym.int("fk", 0, 3)
    src = (ObjSrc if kind == "obj" else ByteSrc)(chunks, [])
    s = BufferedByteReceiveStream(src)
    st = {"fed": False}

    def feed_now():
        st["fed"] = True
        st["buffer_at_feed"] = len(s.buffer)
        s.feed_data(fed)

    src.during = (fk, feed_now)
    out = b""
    for idx, op in enumerate(calls):
        if op == "r":
            n = sym.int("n%d" % idx, 1, L + 1)
            try:
                got = run(s.receive(n))
            except EndOfStream:
                continue
            chk(1 <= len(got) <= n, "receive-size", {"n": n, "len": len(got)})
        else:
            n = sym.int("n%d" % idx, 0, L + 1)
            try:
                got = run(s.receive_exactly(n))
            except IncompleteRead:
                continue
            chk(len(got) == n, "receive_exactly-size", {"n": n, "len": len(got)})
        out += got
    cov.hit("buf:fed-while-receive-pending", st["fed"])
    cov.hit("buf:fed-while-receive-pending-then-surplus", st["fed"] and kind == "obj" and len(s.buffer) > fl)
    # drain everything that is left
    for _ in range(4 * L + 8):
        try:
            out += run(s.receive(100))
        except EndOfStream:
            if not s.buffer:
                break
    else:
        raise Violation("drain-did-not-terminate")
    from_stream = bytes(b for b in out if b <= 100)
    from_feed = bytes(b for b in out if b > 100)
    chk(from_stream == data, "stream-bytes-dropped-duplicated-or-reordered", {"got": list(from_stream), "want": list(data)})
    chk(from_feed == (fed if st["fed"] else b""), "fed-bytes-dropped-or-duplicated", {"got": list(from_feed), "fed": list(fed) if st["fed"] else [], "buffer_len_at_feed": st.get("buffer_at_feed")})


# ---- text ---------------------------------------------------------------------------
ALPHABET = ["a", "é", "€", "\U0001d11e", "﻿"]


def _pick(sym, name, n, latin):
    chars = []
    for i in range(n):
        k = sym.realize(sym.int("%s%d" % (name, i), 0, 1 if latin else len(ALPHABET) - 1))
        chars.append(ALPHABET[k])
    return "".join(chars)


def text_receive(sym, cov, encoding, nchars):
    """any split of the encoded bytes (also inside a character) decodes to the same text"""
    from anyio import EndOfStream
    from anyio.streams.text import TextReceiveStream

    ObjSrc, _ = _mk_stubs()
    text = _pick(sym, "ch", nchars, encoding == "latin-1")
    with sym.untraced():
        raw = text.encode(encoding)
        want = raw.decode(encoding)
    c1 = sym.int("c1", 0, len(raw))
    c2 = sym.int("c2", 0, len(raw))
    sym.assume(c1 <= c2)
    # the codecs are C code: hand them concrete bytes (one path per split, enumerated by the solver)
    c1 = sym.realize(c1)
    c2 = sym.realize(c2)
    chunks = [c for c in (raw[:c1], raw[c1:c2], raw[c2:]) if c]
    with sym.untraced():  # the real codec objects, not CrossHair's models of them
        r = TextReceiveStream(ObjSrc(chunks, []), encoding=encoding)
    out = []

    async def drain():
        while True:
            try:
                piece = await r.receive()
            except EndOfStream:
                break
            out.append(piece)

    run_on_loop(drain())
    chk(all(piece != "" for piece in out), "text-receive-returned-empty-string")
    chk("".join(out) == want, "text-concatenation-differs", {"got": "".join(out), "want": want})
    # was a character split?
    bounds = set()
    acc = 0
    with sym.untraced():
        inc = codecs.getincrementalencoder(encoding)()
        for ch in text:
            acc += len(inc.encode(ch))
            bounds.add(acc)
    cov.hit("text:split-inside-character", any(0 < c < len(raw) and c not in bounds for c in (c1, c2)))


def text_roundtrip(sym, cov, encoding, nsends):
    """strings sent through TextSendStream arrive unchanged through TextReceiveStream"""
    from anyio import EndOfStream
    from anyio.abc import ObjectSendStream
    from anyio.streams.text import TextReceiveStream, TextSendStream

    ObjSrc, _ = _mk_stubs()

    class Sink(ObjectSendStream):
        def __init__(self):
            self.items = []

        async def send(self, item):
            self.items.append(item)

        async def aclose(self):
            pass

    latin = encoding == "latin-1"
    strings = []
    for j in range(nsends):
        ln = sym.realize(sym.int("len%d" % j, 0, 2))
        st = ""
        for i in range(2):
            if i < ln:
                st += ALPHABET[sym.realize(sym.int("s%d_%d" % (j, i), 0, 1 if latin else len(ALPHABET) - 1))]
        strings.append(st)
    sink = Sink()
    with sym.untraced():
        tx = TextSendStream(sink, encoding=encoding)
    out = []

    async def roundtrip():
        for st in strings:
            await tx.send(st)
        with sym.untraced():
            rx = TextReceiveStream(ObjSrc([c for c in sink.items if c], []), encoding=encoding)
        while True:
            try:
                out.append(await rx.receive())
            except EndOfStream:
                break

    try:
        run_on_loop(roundtrip())
    except UnicodeError as e:
        raise Violation("text-roundtrip-not-identity", {"sent": strings, "error": repr(e), "encoding": encoding})
    cov.hit("text:multi-send", sum(1 for st in strings if st) >= 2)
    chk("".join(out) == "".join(strings), "text-roundtrip-not-identity", {"sent": strings, "received": out, "encoding": encoding})


def units(tier):
    quick = tier == "quick"
    us = []
    B = 240 if quick else 1500
    L = 3 if quick else 4
    seqs1 = ["r", "e", "u"]
    seqs2 = ["re", "er", "ue", "eu", "ur", "ru", "uu", "ee"]
    for kind in ("obj", "byte"):
        for calls in seqs1:
            us.append({"name": "buf %s %s L=%d" % (kind, calls, L + 1 if not quick else L), "fn": buffered,
                       "params": {"kind": kind, "calls": calls, "L": L if quick else L + 1}, "budget_s": B})
        us.append({"name": "buf %s u 3-byte delimiter L=%d" % (kind, 4 if quick else 5), "fn": buffered,
                   "params": {"kind": kind, "calls": "u", "L": 4 if quick else 5, "DL": 3}, "budget_s": B})
        for calls in seqs2:
            us.append({"name": "buf %s %s L=%d" % (kind, calls, 2 if quick else 3), "fn": buffered,
                       "params": {"kind": kind, "calls": calls, "L": 2 if quick else 3}, "budget_s": B})
        us.append({"name": "buf %s feed+ru L=2" % kind, "fn": buffered, "params": {"kind": kind, "calls": "ru", "L": 2, "feed": True, "FL": 1 if quick else 2}, "budget_s": B})
        for calls in ("er", "ue", "re"):
            for fk in ("cancel", "error"):
                us.append({"name": "buf %s %s fault=%s L=2" % (kind, calls, fk), "fn": buffered, "params": {"kind": kind, "calls": calls, "L": 2, "fault": fk}, "budget_s": B})
        for calls in ("r", "e", "rr", "er"):
            us.append({"name": "buf %s %s feed_data while the call waits L=3" % (kind, calls), "fn": buffered_feed_during, "params": {"kind": kind, "calls": calls, "L": 3}, "budget_s": B, "certify": False})
        us.append({"name": "buf %s feed+e L=2" % kind, "fn": buffered, "params": {"kind": kind, "calls": "e", "L": 2, "feed": True}, "budget_s": B})
        if not quick:
            for calls in ("rue", "eur", "uue", "eer"):
                us.append({"name": "buf %s %s L=3" % (kind, calls), "fn": buffered, "params": {"kind": kind, "calls": calls, "L": 3}, "budget_s": B})
    for enc in ("utf-8", "utf-16", "utf-32", "latin-1"):
        # (the bound of the split points depends on the chosen characters: no coverage certificate for this unit)
        us.append({"name": "text receive %s" % enc, "fn": text_receive, "params": {"encoding": enc, "nchars": 2 if quick else 3}, "budget_s": B, "certify": False})
        us.append({"name": "text roundtrip %s" % enc, "fn": text_roundtrip, "params": {"encoding": enc, "nsends": 2 if quick else 3}, "budget_s": B})
    return us
