"""C18 (partial): socket streams -- the stream layer over a contract stub of the transport / socket.

Kernel sockets and selector transports cannot be executed symbolically.  AnyIO's own code for this property is
StreamProtocol, SocketStream.receive/send/send_eof/aclose, UNIXSocketStream.receive/send/aclose (_RawSocketMixin)
and ResourceGuard; it is run for real against
  * TCP: a stub asyncio.Transport following the documented transport contract.  The environment delivers
    data_received(chunk) with symbolic chunk lengths at symbolic instants (only while reading is not paused),
    then eof_received(); a write may leave data in the stub's buffer (symbolic), in which case the stub calls
    protocol.pause_writing() synchronously inside write() -- as the selector transport does with a zero
    high-water mark -- and protocol.resume_writing() at a later symbolic instant.
  * UNIX: a stub non-blocking socket whose recv(n) returns a symbolic 1..n-byte prefix of the pending data or
    raises BlockingIOError, whose send(view) accepts a symbolic 1..len prefix or raises BlockingIOError; the
    readiness callbacks registered through loop.add_reader/add_writer are fired by the environment.
"""
from __future__ import annotations

import asyncio

from symx.core import Violation, chk
from symx.vloop import STUBS as LOOP_STUBS
from symx.vloop import CycleBudget, Deadlock, VLoop

NAME = "c18_sock"
STUBS = LOOP_STUBS + [
    "TCP: stub asyncio.Transport (write/write_eof/close/abort/is_closing/pause_reading/resume_reading/set_write_buffer_limits) honouring the transport contract; "
    "close()/abort() schedule connection_lost(None) once with call_soon; close() with unread inbound data in the stub's kernel buffer and no preceding write_eof() "
    "is recorded as 'the peer sees a reset' (Linux TCP semantics), otherwise 'the peer sees end-of-stream'",
    "UNIX: stub non-blocking socket (recv/send/close/fileno/shutdown) + VLoop.add_reader/add_writer/remove_reader/remove_writer recording the callbacks, fired by the environment",
]
ASSUMPTIONS = ["peer byte stream = 0,1,2,... so that order / loss / duplication are visible; chunk lengths 1..3, max_bytes in [1,3] symbolic"]
OUTSIDE = ["real kernel buffer behaviour, TCP loopback, 'several socket buffers' worth of data", "uvloop transports", "receive_fds/send_fds, datagram sockets", "trio"]
MUST_REACH = ["tcp:chunk-split-on-max_bytes", "tcp:eof-after-data", "tcp:data-arrived-before-first-receive", "tcp:send-waited-for-write-gate", "tcp:closed-while-receiving", "tcp:busy-rejected",
              "unix:partial-recv", "unix:partial-send", "unix:eof", "unix:closed-while-receiving", "unix:busy-rejected", "tcp:closed-with-unread-inbound-data", "tcp:aclose-interrupted-by-cancellation", "unix:receive-cancelled", "tcp:closed-with-received-data-still-queued"]


class FakeTransport(asyncio.Transport):
    def __init__(self, loop, protocol):
        super().__init__()
        self.loop = loop
        self.protocol = protocol
        self.written = []
        self.reading = True
        self.closing = False
        self.eof_written = False
        self.lost = False
        self.pending_in = []  # chunks that arrived while reading was paused
        self.block_next_write = None  # set by the harness: callable deciding whether a write leaves data buffered
        self.paused = False
        self.log = []

    def set_write_buffer_limits(self, high=None, low=None):
        self.limits = (high, low)

    def get_extra_info(self, name, default=None):
        return default

    def is_closing(self):
        return self.closing

    def pause_reading(self):
        self.reading = False

    def resume_reading(self):
        self.reading = True
        if self.pending_in:
            self.loop.call_soon(self._flush_in)

    def _flush_in(self):
        while self.pending_in and self.reading and not self.lost:
            kind, data = self.pending_in.pop(0)
            if kind == "data":
                self.protocol.data_received(data)
            else:
                self.protocol.eof_received()

    def deliver(self, kind, data=None):
        if self.lost:
            return
        if not self.reading or self.pending_in:
            self.pending_in.append((kind, data))
        elif kind == "data":
            self.protocol.data_received(data)
        else:
            self.protocol.eof_received()

    def write(self, data):
        if self.closing or self.eof_written:
            raise RuntimeError("transport closing")
        self.written.append(bytes(data))
        self.log.append(("write", len(data), self.loop.cycles))
        if self.block_next_write is not None and self.block_next_write():
            self.paused = True
            self.protocol.pause_writing()

    def resume(self):
        if self.paused and not self.lost:
            self.paused = False
            self.log.append(("resume", self.loop.cycles))
            self.protocol.resume_writing()

    def write_eof(self):
        self.eof_written = True

    def can_write_eof(self):
        return True

    def close(self):
        if not self.closing:
            self.closing = True
            # what the peer will observe (Linux TCP): closing a socket that still holds unread inbound data sends a
            # reset; the peer then gets ECONNRESET instead of a clean end-of-stream unless a FIN (write_eof) went out first
            unread = any(k == "data" for (k, _d) in self.pending_in)
            self.peer_sees = "eof" if (self.eof_written or not unread) else "reset"
            self.loop.call_soon(self._lost, None)

    def abort(self):
        if not self.lost:
            self.closing = True
            self.loop.call_soon(self._lost, None)

    def _lost(self, exc):
        if not self.lost:
            self.lost = True
            self.protocol.connection_lost(exc)


def tcp(sym, cov, mode, eager=False, T=1, N=4, busy=False, close_cancelled=False, xj_fixed=None):
    """mode: 'recv' (peer sends N bytes in symbolic chunks, reader with symbolic delays and max_bytes)
             'send' (local sends, write gate closes/opens at symbolic instants)
             'close' (aclose() by another task at a symbolic instant while receiving / before sending)"""
    import anyio
    import anyio._backends._asyncio as B
    from anyio import BrokenResourceError, BusyResourceError, ClosedResourceError, EndOfStream

    loop = VLoop(eager=eager)
    out: dict = {"chunks": [], "events": []}
    viol: list = []

    def bad(c, d=None):
        viol.append((c, d))

    if mode in ("recv", "close"):
        l1 = sym.int("l1", 1, 3)
        l2 = sym.int("l2", 1, 3)
        t1 = sym.int("t1", 0, T + 1)
        t2 = sym.int("t2", 0, T + 1)
        te = sym.int("te", 0, T + 2)
        sym.assume(t1 <= t2)
        sym.assume(t2 <= te)
        mb = sym.int("mb", 1, 3)
        rd = 0 if close_cancelled else sym.int("rd", 0, T)  # reader delay between receives
        fd = sym.int("fd", 0, T + 1) if (mode == "recv" and not busy) else 0  # delay before the first receive
        total = l1 + l2
    if mode == "send":
        blk1 = sym.bool("blk1")
        blk2 = sym.bool("blk2")
        rs1 = sym.int("rs1", 0, T + 2)
        rs2 = sym.int("rs2", 0, T + 2)
        n1 = sym.int("n1", 1, 3)
        n2 = sym.int("n2", 1, 3)
    if mode == "close":
        xt = sym.int("xt", 0, T + 2)
        xj = sym.int("xj", 0, 1) if xj_fixed is None else xj_fixed  # cycle offset of the close (split over two units in the quick tier)
        xc = close_cancelled  # aclose() runs in an already cancelled scope (`async with stream:` unwinding)

    async def main():
        # the stream is obtained through the real AsyncIOBackend.connect_tcp(); only loop.create_connection is the stub
        made = {}

        async def create_connection(protocol_factory, host=None, port=None, **kw):
            proto_ = protocol_factory()
            tr_ = FakeTransport(loop, proto_)
            proto_.connection_made(tr_)
            made["tr"], made["proto"] = tr_, proto_
            return tr_, proto_

        loop.create_connection = create_connection
        stream = await B.AsyncIOBackend.connect_tcp("peer", 1)
        tr, proto = made["tr"], made["proto"]
        receiving = {"n": 0}

        def deliver(kind, data=None):
            # back-pressure on the receive side: while nobody is inside receive() the transport must be paused,
            # otherwise the stream keeps pulling data from the kernel into its queue without bound
            if tr.reading and receiving["n"] == 0 and not tr.lost and not tr.closing:
                bad("transport-left-reading-while-nobody-receives", {"kind": kind})
            tr.deliver(kind, data)

        if mode in ("recv", "close"):
            data = bytes(range(8))
            loop.env_at(t1, 0, lambda: deliver("data", data[:l1]))
            loop.env_at(t2, 1, lambda: deliver("data", data[l1:l1 + l2]))
            def deliver_eof():
                if not tr.lost and not tr.closing:
                    out["peer_eof_delivered"] = True
                deliver("eof")

            loop.env_at(te, 2, deliver_eof)

            async def reader():
                await anyio.sleep(fd)  # the reader may start late
                while True:
                    try:
                        receiving["n"] += 1
                        try:
                            c = await stream.receive(mb)
                        finally:
                            receiving["n"] -= 1
                    except EndOfStream:
                        out["end"] = "eof"
                        return
                    except ClosedResourceError:
                        out["end"] = "closed"
                        return
                    except BrokenResourceError:
                        out["end"] = "broken"
                        return
                    except BusyResourceError:
                        # this reader is the legitimate user (it started first): nobody else is inside receive() now
                        bad("busy-error-although-no-other-task-is-receiving", {"second_reader": out.get("second")})
                        out["end"] = "busy"
                        return
                    out["chunks"].append(c)
                    if len(c) < 1 or len(c) > mb:
                        bad("chunk-size", {"len": len(c), "max_bytes": mb})
                    await anyio.sleep(rd)

            async def second_reader():
                await anyio.sleep(0)
                try:
                    receiving["n"] += 1
                    try:
                        await stream.receive(1)
                    finally:
                        receiving["n"] -= 1
                    out["second"] = "accepted"
                except BusyResourceError:
                    out["second"] = "busy"
                except (EndOfStream, ClosedResourceError):
                    out["second"] = "not-busy-anymore"

            async def closer():
                await anyio.sleep(xt)
                for _ in range(3):
                    if _ < xj:
                        await anyio.sleep(0)
                out["closed_at"] = loop.cycles
                out["chunks_before_close"] = len(out["chunks"])
                out["bytes_before_close"] = sum(len(c_) for c_ in out["chunks"])
                out["queued_at_close"] = sum(len(c_) for c_ in proto.read_queue)
                if xc:
                    with anyio.CancelScope() as sc_:
                        sc_.cancel()
                        await stream.aclose()
                    cov.hit("tcp:aclose-interrupted-by-cancellation", sc_.cancelled_caught)
                else:
                    await stream.aclose()
                out["close_returned_at"] = loop.cycles
                try:
                    await stream.send(b"x")
                    bad("send-after-close-accepted")
                except ClosedResourceError:
                    pass
                except BrokenResourceError:
                    bad("send-on-locally-closed-stream-raised-BrokenResourceError")

            async with anyio.create_task_group() as tg:
                tg.start_soon(reader)
                if busy:
                    tg.start_soon(second_reader)
                if mode == "close":
                    tg.start_soon(closer)
        else:
            decisions = [blk1, blk2]
            tr.block_next_write = lambda: decisions.pop(0) if decisions else False
            loop.env_at(rs1, 0, tr.resume)
            loop.env_at(rs2, 1, tr.resume)
            loop.env_at(T + 4, 0, tr.resume)
            payload = [bytes(range(0, n1)), bytes(range(10, 10 + n2))]

            async def sender():
                for p in payload:
                    c0 = loop.cycles
                    was_paused_before = tr.paused
                    await stream.send(p)
                    out["events"].append(("send-returned", loop.cycles, tr.paused))
                    if tr.paused:
                        bad("send-returned-while-write-gate-closed", {"payload": len(p)})

            async def second_sender():
                await anyio.sleep(0)
                try:
                    await stream.send(b"\\xff")
                    out["second"] = "accepted"
                except BusyResourceError:
                    out["second"] = "busy"

            async with anyio.create_task_group() as tg:
                tg.start_soon(sender)
                if busy:
                    tg.start_soon(second_sender)
            await stream.send_eof()
            out["written"] = b"".join(tr.written)
            out["eof_written"] = tr.eof_written
            out["log"] = tr.log
            await stream.aclose()
        out["tr"] = tr

    try:
        loop.run(main(), max_cycles=500)
    except Deadlock:
        raise Violation("liveness:Deadlock", {"chunks": [bytes(c).hex() for c in out["chunks"]], "end": out.get("end")})
    except CycleBudget:
        raise Violation("liveness:CycleBudget")
    chk(not viol, viol[0][0] if viol else "", viol[:3])
    if mode in ("recv", "close"):
        got = b"".join(out["chunks"])
        want = bytes(range(8))[:total]
        chk(want[: len(got)] == got, "received-bytes-not-a-prefix-of-sent", {"got": got.hex(), "sent": want.hex()})
        chk(all(len(c) > 0 for c in out["chunks"]), "empty-chunk")
        if mode == "recv":
            chk(out.get("end") == "eof", "no-end-of-stream", out.get("end"))
            chk(got == want, "bytes-lost-before-end-of-stream", {"got": got.hex(), "sent": want.hex()})
            cov.hit("tcp:eof-after-data")
            cov.hit("tcp:data-arrived-before-first-receive", (not busy) and t1 < fd)
            cov.hit("tcp:chunk-split-on-max_bytes", len(out["chunks"]) > 2)
        else:
            chk(out.get("end") in ("closed", "eof"), "receive-after-close-wrong-ending", out.get("end"))
            if out.get("end") == "eof":
                chk(out.get("peer_eof_delivered"), "end-of-stream-on-locally-closed-stream-without-peer-eof")
            if out.get("end") == "closed" and "queued_at_close" in out:
                # ClosedResourceError only once no already-received data is left
                chk(len(got) >= out["bytes_before_close"] + out["queued_at_close"], "already-received-data-discarded-by-local-close",
                    {"received": len(got), "before_close": out["bytes_before_close"], "queued_at_close": out["queued_at_close"]})
                cov.hit("tcp:closed-with-received-data-still-queued", out["queued_at_close"] > 0)
            cov.hit("tcp:closed-while-receiving", out.get("end") == "closed")
            tr_ = out["tr"]
            if getattr(tr_, "peer_sees", None) is not None:
                chk(tr_.peer_sees == "eof", "peer-sees-reset-instead-of-end-of-stream-after-close", {"eof_written": tr_.eof_written})
                cov.hit("tcp:closed-with-unread-inbound-data", any(k == "data" for (k, _d) in tr_.pending_in))
        if busy:
            cov.hit("tcp:busy-rejected", out.get("second") == "busy")
            chk(out.get("second") in ("busy", "not-busy-anymore"), "second-reader-accepted-concurrently", out.get("second"))
    else:
        n_total = n1 + n2
        want = bytes(range(0, n1)) + bytes(range(10, 10 + n2))
        w = out["written"]
        if busy and out.get("second") == "accepted":
            raise Violation("second-sender-accepted-concurrently")
        chk(w == want, "bytes-written-differ-from-bytes-sent", {"written": w.hex(), "sent": want.hex()})
        chk(out["eof_written"], "send_eof-not-forwarded")
        cov.hit("tcp:send-waited-for-write-gate", any(e[0] == "resume" for e in out["log"]))
        if busy:
            cov.hit("tcp:busy-rejected", out.get("second") == "busy")


class FakeSocket:
    """non-blocking stream socket stub; every partial result is a symbolic choice made by the harness"""

    def __init__(self, choose_recv, choose_send, choose_block):
        self.inbuf = b""
        self.eof = False
        self.closed = False
        self.sent = b""
        self.choose_recv = choose_recv
        self.choose_send = choose_send
        self.choose_block = choose_block
        self.shut = False

    def fileno(self):
        return -1 if self.closed else 7

    def close(self):
        self.closed = True

    def shutdown(self, how):
        self.shut = True

    def recv(self, n):
        if self.closed:
            raise OSError(9, "Bad file descriptor")
        if not self.inbuf:
            if self.eof:
                return b""
            raise BlockingIOError
        k = self.choose_recv(min(n, len(self.inbuf)))
        out, self.inbuf = self.inbuf[:k], self.inbuf[k:]
        return out

    def send(self, view):
        if self.closed:
            raise OSError(9, "Bad file descriptor")
        if self.choose_block():
            raise BlockingIOError
        k = self.choose_send(len(view))
        self.sent += bytes(view[:k])
        return k


def unix(sym, cov, mode, eager=False, T=1, cj_fixed=None):
    import anyio
    import anyio._backends._asyncio as B
    from anyio import BrokenResourceError, BusyResourceError, ClosedResourceError, EndOfStream

    loop = VLoop(eager=eager)
    readers: dict = {}
    writers: dict = {}
    loop.add_reader = lambda fd, cb, *a: readers.__setitem__(id(fd), (cb, a))
    loop.remove_reader = lambda fd: readers.pop(id(fd), None) is not None
    loop.add_writer = lambda fd, cb, *a: writers.__setitem__(id(fd), (cb, a))
    loop.remove_writer = lambda fd: writers.pop(id(fd), None) is not None
    ks = [sym.int("k%d" % i, 1, 3) for i in range(6)]
    blocks = [sym.bool("b%d" % i) for i in range(3)]
    counter = {"r": 0, "s": 0, "b": 0}
    out: dict = {"chunks": []}
    viol: list = []

    def choose(kind):
        def f(limit):
            i = counter[kind]
            counter[kind] += 1
            k = ks[i] if i < len(ks) else limit
            if k > limit:
                k = limit
            if k < limit:
                cov.hit("unix:partial-recv" if kind == "r" else "unix:partial-send")
            return k

        return f

    def choose_block():
        i = counter["b"]
        counter["b"] += 1
        return blocks[i] if i < len(blocks) else False

    sock = FakeSocket(choose("r"), choose("s"), choose_block)
    mb = sym.int("mb", 1, 3)
    t1 = sym.int("t1", 0, T + 1)
    te = sym.int("te", 0, T + 2)
    sym.assume(t1 <= te)
    l1 = sym.int("l1", 1, 4)
    if mode == "close":
        xt = sym.int("xt", 0, T + 2)
    if mode == "send-busy":
        sd = sym.int("sd", 0, 4)
    if mode == "recv-cancel":
        ct = sym.int("ct", 0, T + 2)
        cj = sym.int("cj", 0, 2) if cj_fixed is None else cj_fixed

    def fire_readable():
        ent = readers.get(id(sock))
        if ent:
            ent[0](*ent[1])

    def fire_writable():
        ent = writers.get(id(sock))
        if ent:
            ent[0](*ent[1])

    async def main():
        stream = B.UNIXSocketStream(sock)
        data = bytes(range(8))

        def arrive():
            sock.inbuf += data[:l1]
            fire_readable()

        def arrive_eof():
            sock.eof = True
            fire_readable()

        cur: dict = {}

        def cancel_current_receive():
            if "sc" in cur:
                cov.hit("unix:receive-cancelled")
                cur["sc"].cancel()

        async def reader():
            while True:
                try:
                    if mode == "recv-cancel":
                        # each attempt in its own scope; a cancelled attempt is simply retried: nothing may be lost
                        with anyio.CancelScope() as sc_:
                            cur["sc"] = sc_
                            c = await stream.receive(mb)
                        if sc_.cancelled_caught:
                            continue
                    else:
                        c = await stream.receive(mb)
                except EndOfStream:
                    out["end"] = "eof"
                    return
                except ClosedResourceError:
                    out["end"] = "closed"
                    return
                except BrokenResourceError:
                    out["end"] = "broken"
                    return
                if len(c) < 1 or len(c) > mb:
                    viol.append(("chunk-size", {"len": len(c), "max_bytes": mb}))
                out["chunks"].append(c)

        async def writer():
            payload = bytes(range(20, 24))
            out["first_started"] = True
            await stream.send(payload)
            out["first_returned"] = True
            out["sent_all"] = sock.sent == payload or mode == "send-busy"
            out["sent"] = sock.sent

        async def second_writer():
            for _ in range(4):
                if _ < sd:
                    await anyio.sleep(0)
            out["first_in_progress_at_second_start"] = out.get("first_started") and not out.get("first_returned")
            try:
                await stream.send(bytes([30, 31]))
                out["second"] = "accepted"
                out["first_returned_when_second_returned"] = bool(out.get("first_returned"))
            except BusyResourceError:
                out["second"] = "busy"

        async def pump_writable():
            # the environment reports writability whenever a writer is registered
            for _ in range(12):
                await anyio.sleep(0)
                fire_writable()

        async def closer():
            await anyio.sleep(xt)
            await stream.aclose()
            try:
                await stream.send(b"x")
                viol.append(("send-after-close-accepted", None))
            except ClosedResourceError:
                pass

        if mode in ("recv", "close", "recv-cancel"):
            loop.env_at(t1, 0, arrive)
            if mode in ("recv", "recv-cancel"):
                loop.env_at(te, 1, arrive_eof)
            if mode == "recv-cancel":
                loop.env_at(ct, cj, cancel_current_receive)
        async with anyio.create_task_group() as tg:
            if mode in ("recv", "close", "recv-cancel"):
                tg.start_soon(reader)
            if mode in ("send", "send-busy"):
                tg.start_soon(writer)
                if mode == "send-busy":
                    tg.start_soon(second_writer)
                tg.start_soon(pump_writable)
            if mode == "close":
                tg.start_soon(closer)

    try:
        loop.run(main(), max_cycles=500)
    except Deadlock:
        raise Violation("liveness:Deadlock", {"end": out.get("end")})
    except CycleBudget:
        raise Violation("liveness:CycleBudget")
    chk(not viol, viol[0][0] if viol else "", viol[:3])
    if mode in ("recv", "close", "recv-cancel"):
        got = b"".join(out["chunks"])
        want = bytes(range(8))[:l1]
        chk(want[: len(got)] == got, "received-bytes-not-a-prefix-of-sent", {"got": got.hex(), "sent": want.hex()})
        if mode in ("recv", "recv-cancel"):
            chk(out.get("end") == "eof" and got == want, "bytes-lost-or-no-end-of-stream", {"end": out.get("end"), "got": got.hex(), "sent": want.hex()})
            cov.hit("unix:eof")
        else:
            chk(out.get("end") == "closed", "receive-after-close-wrong-ending", out.get("end"))
            cov.hit("unix:closed-while-receiving")
    elif mode == "send-busy":
        p1, p2 = bytes(range(20, 24)), bytes([30, 31])
        chk(out.get("first_returned"), "first-sender-never-finished")
        if out.get("second") == "busy":
            chk(sock.sent == p1, "bytes-written-differ-from-bytes-sent", {"sent": sock.sent.hex()})
            cov.hit("unix:busy-rejected")
        else:
            # accepted: only legitimate if the two calls did not overlap; in any case the messages must not be interleaved
            chk(sock.sent in (p1 + p2, p2 + p1), "concurrent-senders-interleaved-data", {"on_the_wire": sock.sent.hex()})
            # (a second call that merely started while the first was still in its entry checkpoint, and went on after the
            # first had finished, did not overlap with it)
            chk(out.get("first_returned_when_second_returned"), "second-sender-accepted-concurrently", {"on_the_wire": sock.sent.hex()})
    else:
        chk(out.get("sent_all"), "bytes-written-differ-from-bytes-sent", {"sent": out.get("sent", b"").hex()})


def units(tier):
    quick = tier == "quick"
    B_ = 240 if quick else 1500
    us = []
    us.append({"name": "tcp recv", "fn": tcp, "params": {"mode": "recv"}, "budget_s": B_})
    us.append({"name": "tcp recv busy", "fn": tcp, "params": {"mode": "recv", "busy": True, "T": 0}, "budget_s": B_})
    us.append({"name": "tcp send", "fn": tcp, "params": {"mode": "send"}, "budget_s": B_})
    us.append({"name": "tcp send busy", "fn": tcp, "params": {"mode": "send", "busy": True, "T": 0}, "budget_s": B_})
    for xj_ in (0, 1):
        us.append({"name": "tcp close (cycle offset %d)" % xj_, "fn": tcp, "params": {"mode": "close", "xj_fixed": xj_}, "budget_s": B_})
    us.append({"name": "tcp close, aclose() interrupted by cancellation", "fn": tcp, "params": {"mode": "close", "close_cancelled": True}, "budget_s": B_})
    us.append({"name": "unix recv", "fn": unix, "params": {"mode": "recv"}, "budget_s": B_})
    us.append({"name": "unix send", "fn": unix, "params": {"mode": "send"}, "budget_s": B_})
    for cj_ in (0, 1, 2):
        us.append({"name": "unix recv, a receive attempt cancelled (cycle offset %d) and retried" % cj_, "fn": unix, "params": {"mode": "recv-cancel", "cj_fixed": cj_}, "budget_s": B_})
    us.append({"name": "unix send busy", "fn": unix, "params": {"mode": "send-busy"}, "budget_s": B_})
    us.append({"name": "unix close", "fn": unix, "params": {"mode": "close"}, "budget_s": B_})
    if not quick:
        us.append({"name": "tcp recv T=2", "fn": tcp, "params": {"mode": "recv", "T": 2}, "budget_s": B_})
        us.append({"name": "tcp send T=2", "fn": tcp, "params": {"mode": "send", "T": 2}, "budget_s": B_})
        us.append({"name": "tcp close eager", "fn": tcp, "params": {"mode": "close", "eager": True}, "budget_s": B_})
        us.append({"name": "unix recv T=2", "fn": unix, "params": {"mode": "recv", "T": 2}, "budget_s": B_})
        us.append({"name": "unix recv-cancel T=2", "fn": unix, "params": {"mode": "recv-cancel", "T": 2, "cj_fixed": 1}, "budget_s": B_})
        us.append({"name": "unix recv-cancel eager", "fn": unix, "params": {"mode": "recv-cancel", "eager": True}, "budget_s": B_})
        us.append({"name": "unix send busy eager", "fn": unix, "params": {"mode": "send-busy", "eager": True}, "budget_s": B_})
        us.append({"name": "tcp close T=2 (cycle offset 0)", "fn": tcp, "params": {"mode": "close", "T": 2, "xj_fixed": 0}, "budget_s": B_})
        us.append({"name": "tcp close in cancelled scope, eager", "fn": tcp, "params": {"mode": "close", "close_cancelled": True, "eager": True}, "budget_s": B_})
    return us
