"""Shared Layer-B scenario for task groups (C01 join, C02 errors).

children: list of (behaviour, how-started) with behaviour in
    'R' sleep(a) then return a symbolic value      'E' sleep(a) then raise E_i
    'B' block until cancelled, re-raise            'C' block; on cancel shielded cleanup sleep(b) (2 steps); re-raise
    'S' on cancel swallow once and checkpoint again (must be interrupted again), then re-raise
    'X' block; on cancel raise E_i from the cleanup      'W' block; on cancel swallow it and return a value
    'G' sleep(a), spawn a grandchild ('R') into the same group, return
    'N' open a nested task group with one 'B' child and one 'R' child
    'H' a shielded section sleep(b) (2 steps) first, then block until cancelled, re-raise
    'L' sleep(a) then start a late sibling AFTER the group may already be cancelled (start_soon inside try)
how-started: 'soon' | 'task' (create_task -> TaskHandle) | 'start' (tg.start, started() after the first sleep)
body: 'fall' (sleep(c), fall through) | 'raise' (sleep(c), raise E_body) | 'cancel' (sleep(c), tg.cancel_scope.cancel())
env: list of actions at symbolic instants: 'group' (cancel the group's scope), 'outer' (cancel an enclosing scope),
     'host' (native Task.cancel() of the host), 'child0' (native cancel of child 0), 'handle0' (TaskHandle.cancel() of child 0)
"""
from __future__ import annotations

import asyncio

from symx.core import Violation, chk
from symx.vloop import CycleBudget, Deadlock, VLoop


class E(Exception):
    pass


class EF(E):
    """an exception whose truth value is False (container-style exception with __len__)"""

    def __len__(self):
        return 0


class EB(BaseException):
    """a non-cancellation exception that is not an Exception subclass"""


ERR = (E, EB)
EXC = {"plain": E, "falsy": EF, "base": EB}


def _leaves(eg):
    for x in eg.exceptions:
        if isinstance(x, BaseExceptionGroup):
            yield from _leaves(x)
        else:
            yield x


def scn(sym, cov, props, children, body="fall", env=(), eager=False, T=1, J=2, ext="R", exc="plain", tg_shield=False, outer_shield=False, rewrap=2):
    import anyio
    from anyio import TASK_STATUS_IGNORED, CancelScope, TaskHandle

    loop = VLoop(eager=eager)
    n = len(children)
    a = [sym.int("a%d" % i, 0, T) for i in range(n)]
    b = [sym.int("b%d" % i, 0, T) for i in range(n)]
    v = [sym.int("v%d" % i, 0, 1000) for i in range(n)]
    c = sym.int("c", 0, T)
    if "spawn" in env and n == 0:
        a, b, v = [sym.int("ax", 0, T)], [0], [sym.int("vx", 0, 1000)]
    acts = []
    for k, kind in enumerate(env):
        acts.append({"kind": kind, "t": sym.int("et%d" % k, 0, 2 * T + 1), "j": sym.int("ej%d" % k, 0, J)})

    raised: list = []  # non-cancellation exceptions actually raised (by identity)
    rec: dict = {}  # child key -> dict(done, outcome, value, exc, steps_after_exit)
    handles: dict = {}
    tasks: dict = {}
    viol: list = []
    state = {"exited": False, "first_failure": None, "fired": []}

    def bad(prop, clause, detail=None):
        if prop in props:
            viol.append((prop + ":" + clause, detail))

    def mk(key):
        rec[key] = {"done": False, "outcome": None, "value": None, "exc": None, "after_exit": 0, "cancel_seen": 0, "started_after_failure": False}
        return rec[key]

    def step(key):
        if state["exited"]:
            rec[key]["after_exit"] += 1

    def fail(key, msg):
        e = EXC[exc](msg)
        raised.append(e)
        rec[key]["exc"] = e
        if state["first_failure"] is None:
            state["first_failure"] = (loop.cycles, key)
        return e

    async def child(key, beh, i, tg, *, task_status=TASK_STATUS_IGNORED):
        r = mk(key)
        r["first_step_cycle"] = loop.cycles
        r["first_step_tick"] = loop.time()
        tasks[key] = asyncio.current_task()
        try:
            step(key)
            if beh in ("R", "E", "G", "L"):
                await anyio.sleep(a[i])
                step(key)
                task_status.started(key)
                if beh == "E":
                    raise fail(key, "E-" + key)
                if beh == "G":
                    tg.start_soon(child, key + ".g", "R", i, tg)
                if beh == "L":
                    try:
                        tg.start_soon(child, key + ".late", "R", i, tg)
                        r["late_started"] = True
                    except RuntimeError:
                        r["late_started"] = False
                r["outcome"] = "returned"
                r["value"] = v[i]
                return v[i]
            if beh == "H":
                # a shielded section first (e.g. a critical write), then ordinary blocking work
                with CancelScope(shield=True):
                    await anyio.sleep(b[i])
                    step(key)
                    await anyio.sleep(0)
                    step(key)
            if beh == "N":
                task_status.started(key)
                async with anyio.create_task_group() as inner:
                    inner.start_soon(child, key + ".nb", "B", i, inner)
                    inner.start_soon(child, key + ".nr", "R", i, inner)
                    await anyio.sleep(b[i])
                    step(key)
                    inner.cancel_scope.cancel()
                chk(rec[key + ".nb"]["done"] and rec[key + ".nr"]["done"], "C01:nested-group-child-outlives-its-block")
                r["outcome"] = "returned"
                r["value"] = v[i]
                return v[i]
            task_status.started(key)
            try:
                await anyio.sleep_forever()
            except asyncio.CancelledError:
                r["cancel_seen"] += 1
                r.setdefault("cancel_cycle", loop.cycles)
                r.setdefault("cancel_tick", loop.time())
                step(key)
                if beh == "C":
                    with CancelScope(shield=True):
                        await anyio.sleep(b[i])
                        step(key)
                        await anyio.sleep(0)
                        step(key)
                elif beh == "S":
                    try:
                        await anyio.sleep(0)
                        r["swallow_not_recancelled"] = True
                    except asyncio.CancelledError:
                        r["cancel_seen"] += 1
                        raise
                elif beh == "X":
                    raise fail(key, "X-" + key)
                elif beh == "W":
                    # swallow the cancellation and finish normally with a value
                    r["outcome"] = "returned"
                    r["value"] = v[i]
                    return v[i]
                raise
        except asyncio.CancelledError:
            r["outcome"] = "cancelled"
            raise
        except ERR:
            r["outcome"] = "raised"
            raise
        finally:
            r["done"] = True
            r["end_cycle"] = loop.cycles
            step(key)

    out: dict = {}

    async def main():
        outer = CancelScope(shield=outer_shield)  # (shielded: e.g. move_on_after(..., shield=True) around clean-up code)
        host = asyncio.current_task()
        tgref = {}

        def fire(act):
            state["fired"].append((act["kind"], loop.cycles))
            state.setdefault("fired_ticks", []).append((act["kind"], loop.time()))
            k = act["kind"]
            if state["exited"] and k in ("host",):
                return
            if k == "group":
                if "tg" in tgref:
                    tgref["tg"].cancel_scope.cancel()
            elif k == "outer":
                outer.cancel()
            elif k == "host":
                state["native_host"] = state.get("native_host", 0) + 1
                host.cancel()
            elif k == "child0":
                t = tasks.get("c0")
                if t is not None and not t.done():
                    state["native_child"] = True
                    t.cancel()
            elif k == "spawn":
                # somebody else holding the task group starts a task in it (e.g. a BlockingPortal call)
                if "tg" in tgref:
                    try:
                        tgref["tg"].start_soon(child, "ext", ext, 0, tgref["tg"])
                        state["ext_spawn"] = "accepted-after-exit" if state["exited"] else "accepted"
                    except RuntimeError:
                        state["ext_spawn"] = "refused"
            elif k == "handle0":
                h = handles.get("c0")
                if h is not None:
                    h.cancel()

        for act in acts:
            loop.env_at(act["t"], act["j"], fire, act)
        try:
            with outer:
                try:
                    async with anyio.create_task_group() as tg:
                        tgref["tg"] = tg
                        if tg_shield:
                            tg.cancel_scope.shield = True
                        for i, (beh, how) in enumerate(children):
                            key = "c%d" % i
                            if how == "soon":
                                tg.start_soon(child, key, beh, i, tg)
                            elif how == "task":
                                handles[key] = tg.create_task(child(key, beh, i, tg))
                            else:
                                try:
                                    out["start_%s" % key] = await tg.start(child, key, beh, i, tg)
                                except ERR as e:
                                    out.setdefault("surfaced_by_start", []).append(e)
                                except RuntimeError:
                                    out["start_rt_%s" % key] = True
                        await anyio.sleep(c)
                        if body == "raise":
                            e = EXC[exc]("body")
                            raised.append(e)
                            if state["first_failure"] is None:
                                state["first_failure"] = (loop.cycles, "body")
                            raise e
                        if body == "cancel":
                            tg.cancel_scope.cancel()
                            await anyio.sleep(0)
                        if body == "cancel-rewrap":
                            # the group cancels itself while the body awaits through `rewrap` layers of third-party style wrappers,
                            # each of which catches the cancellation and raises a fresh CancelledError: still the group's own
                            # shutdown, not an error and not a foreign cancellation
                            tg.cancel_scope.cancel()

                            async def layer(k):
                                if k == 0:
                                    await anyio.sleep(0)
                                    return
                                try:
                                    await layer(k - 1)
                                except asyncio.CancelledError:
                                    raise asyncio.CancelledError()  # (implicit __context__: the exception being handled)

                            await layer(rewrap)
                        if body == "shield-toggle":
                            # the host sits in a shielded block while an enclosing scope may get cancelled (its children are
                            # hit); then it shields the whole group and leaves the block: it is now directly inside a shielded
                            # scope that nobody cancelled, and must not be interrupted there
                            with CancelScope(shield=True):
                                await anyio.sleep(c)
                                tg.cancel_scope.shield = True
                                state["toggle_tick"] = loop.time()
                                state["toggle_cycle"] = loop.cycles
                                # (a child that ends in cancellation while the group is NOT effectively cancelled makes the group
                                # cancel itself -- AnyIO's policy for members cancelled out of band; judged only if every child
                                # had finished, done callbacks included, before the shield was raised)
                                state["all_children_finished_before_toggle"] = all(r_["done"] and r_.get("end_cycle", 1 << 30) + 1 < loop.cycles for r_ in rec.values()) and len(rec) == n
                            try:
                                await anyio.sleep(1)
                                state["after_toggle"] = "ok"
                            except asyncio.CancelledError:
                                state["after_toggle"] = "cancelled"
                                raise
                            finally:
                                state["group_cancelled_by_env"] = any(k == "group" for (k, _c) in state["fired"])
                                tg.cancel_scope.cancel()  # end the remaining children
                        if body == "shielded-spawn":
                            # the host sits in a shielded section (e.g. cleanup) and starts a task in its group,
                            # which may already be cancelled by then (environment 'group'/'outer' action)
                            with CancelScope(shield=True):
                                await anyio.sleep(c)
                                state["spawn_cycle"] = loop.cycles
                                state["spawn_cancelled"] = tg.cancel_scope.cancel_called or outer.cancel_called
                                handles["sp"] = tg.create_task(child("sp", "B", 0, tg))
                                await anyio.sleep(T + 1)
                                state["shield_end_cycle"] = loop.cycles
                                state["shield_end_tick"] = loop.time()
                                if "sp" in rec:
                                    state["sp_cancel_seen_in_shield"] = rec["sp"]["cancel_seen"]
                finally:
                    # the very first instruction after the `async with`, however it was left
                    state["exited"] = True
                    state["exit_cycle"] = loop.cycles
                    out["snapshot"] = {k: dict(r) for k, r in rec.items()}
                    out["handles"] = {}
                    for k, h in handles.items():
                        st = h.status
                        info = {"status": st.name}
                        if st is TaskHandle.Status.FINISHED:
                            info["value"] = h.return_value
                        elif st is TaskHandle.Status.FAILED:
                            info["exc"] = h.exception
                        out["handles"][k] = info
            out["outer_caught"] = outer.cancelled_caught
        except BaseExceptionGroup as eg:
            out["group"] = list(_leaves(eg))
        except ERR as e:
            out["bare"] = e
        except asyncio.CancelledError:
            out["cancelled_out"] = True
            for _ in range(state.get("native_host", 0)):
                asyncio.current_task().uncancel()
        # drain: does any child still take steps?
        for _ in range(4):
            await asyncio.sleep(0)
        await asyncio.sleep(T + 2)

    try:
        loop.run(main(), max_cycles=600)
    except Deadlock:
        raise Violation(("C01" if "C01" in props else "C02") + ":liveness:Deadlock", {k: r["done"] for k, r in rec.items()})
    except CycleBudget:
        raise Violation(("C01" if "C01" in props else "C02") + ":liveness:CycleBudget")
    snap = out.get("snapshot", {})
    # ---- C01 ---------------------------------------------------------------------------------------------
    for k, r in snap.items():
        if not r["done"]:
            bad("C01", "child-still-running-after-group-exit", k)
    for k, r in rec.items():
        if k not in snap:
            bad("C01", "child-started-after-group-exit", k)
        if r["after_exit"]:
            bad("C01", "child-step-after-group-exit", {"child": k, "steps": r["after_exit"]})
        if r.get("swallow_not_recancelled"):
            bad("C03", "swallowed-cancellation-not-redelivered", k)
    for k, info in out.get("handles", {}).items():
        r = rec.get(k)
        if r is None:
            if info["status"] not in ("CANCELLED",):
                bad("C01", "handle-of-never-started-child-not-cancelled", {"child": k, "status": info["status"]})
            continue
        if info["status"] in ("PENDING", "CANCELLING"):
            bad("C01", "handle-not-final-after-group-exit", {"child": k, "status": info["status"]})
        elif info["status"] == "FINISHED":
            if r["outcome"] != "returned" or info["value"] != r["value"]:
                bad("C01", "handle-return-value-mismatch", {"child": k, "handle": info["value"], "actual": r["value"], "outcome": r["outcome"]})
        elif info["status"] == "FAILED":
            if r["outcome"] != "raised" or info["exc"] is not r["exc"]:
                bad("C01", "handle-exception-mismatch", {"child": k, "outcome": r["outcome"]})
        elif info["status"] == "CANCELLED":
            if r["outcome"] != "cancelled":
                bad("C01", "handle-cancelled-but-coroutine-did-not-end-cancelled", {"child": k, "outcome": r["outcome"]})
        cov.hit("handle-finished", info["status"] == "FINISHED")
        cov.hit("handle-cancelled", info["status"] == "CANCELLED")
        cov.hit("handle-failed", info["status"] == "FAILED")
    # ---- C02 ---------------------------------------------------------------------------------------------
    surfaced = list(out.get("group", [])) + list(out.get("surfaced_by_start", []))
    native = state.get("native_host") or state.get("native_child")
    for e in raised:
        cnt = sum(1 for s in surfaced if s is e)
        if cnt == 0 and not native:
            bad("C02", "raised-exception-not-surfaced", str(e))
        if cnt > 1:
            bad("C02", "raised-exception-surfaced-twice", str(e))
    if "bare" in out:
        bad("C02", "exception-left-the-block-outside-an-exception-group", repr(out["bare"]))
    for s in surfaced:
        if isinstance(s, asyncio.CancelledError):
            if not native:
                bad("C02", "cancellation-reported-as-error", repr(s))
        elif not any(s is e for e in raised):
            bad("C02", "foreign-exception-in-group", repr(s))
    if not raised and "group" in out and not native:
        bad("C02", "group-raised-although-nothing-failed", [repr(x) for x in out["group"]])
    # a cancellation coming from an enclosing scope passes through: if the enclosing scope was cancelled while
    # the block was still running (at least two cycles before it was left), the block must not complete normally
    outer_fired = [cy for (k, cy) in state["fired"] if k == "outer"]
    if outer_fired and not native and "exit_cycle" in state and outer_fired[0] < state["exit_cycle"] - 2:
        if not out.get("outer_caught") and "group" not in out and not out.get("cancelled_out"):
            bad("C02", "enclosing-cancellation-did-not-pass-through", {"outer_cancelled_at": outer_fired[0], "block_left_at": state["exit_cycle"]})
        cov.hit("enclosing-scope-cancelled-during-exit-wait", any(k == "group" for (k, _c) in state["fired"]))
    if not raised and not native:
        outer_cancelled = any(k == "outer" for (k, _c) in state["fired"])
        if out.get("cancelled_out") and not outer_cancelled:
            bad("C02", "cancellation-escaped-without-enclosing-cancel")
    if raised and not native:
        # after the first failure the remaining tasks were cancelled: blockers ended cancelled, nobody left running
        for k, r in rec.items():
            if r["outcome"] is None:
                bad("C02", "sibling-not-cancelled-after-failure", k)
    # ---- C04: shields hold -- nobody cancelled the (now shielded) group scope itself, so the host must not be interrupted in it
    if body == "shield-toggle" and "after_toggle" in state and not raised and not native and not state.get("group_cancelled_by_env") \
            and state.get("all_children_finished_before_toggle"):
        if state["after_toggle"] != "ok":
            bad("C04", "interrupted-inside-a-shielded-scope-that-nobody-cancelled", {"fired": state["fired"], "shield_set_at_tick": state.get("toggle_tick")})
        cov.hit("group-shielded-after-enclosing-cancel-hit-its-children", any(k == "outer" for (k, _c) in state["fired"]) and any(r["outcome"] == "cancelled" for r in rec.values()))
    # ---- C03: a task newly created inside an already cancelled scope is interrupted promptly -----------------
    if body == "shielded-spawn" and "spawn_cycle" in state:
        cancelled_by = [cy for (k, cy) in state["fired"] if k in ("group", "outer")]
        cancel_ticks = [tk for (k, tk) in state.get("fired_ticks", []) if k in ("group", "outer")]
        if cancelled_by and cancel_ticks[0] < state.get("shield_end_tick", 0):
            # the scope was cancelled well before the host left its shielded section
            r = rec.get("sp", {})  # a task that never took a step was not interrupted at a checkpoint either
            ref = max(cancelled_by[0], r.get("first_step_cycle", 0))
            ref_tick = max(cancel_ticks[0], r.get("first_step_tick", 0))
            # within a few loop cycles AND without the loop going idle (no virtual time may pass: the delivery
            # callback keeps the loop busy until the cancellation has landed)
            if r.get("cancel_cycle") is None or r["cancel_cycle"] - ref > 4 or r["cancel_tick"] != ref_tick:
                bad("C03", "new-task-in-cancelled-scope-not-interrupted", {"spawned_at": state.get("spawn_cycle"), "scope_cancelled_at": cancelled_by[0],
                                                                            "child_cancelled_at": r.get("cancel_cycle"), "host_left_shield_at": state.get("shield_end_cycle")})
            cov.hit("spawn-into-cancelled-scope-from-shielded-host", state.get("spawn_cancelled"))
    cov.hit("group-raised", "group" in out)
    cov.hit("two-failures", len(raised) >= 2)
    cov.hit("failure-from-cleanup", any(str(e).startswith("X-") for e in raised))
    cov.hit("child-cancelled", any(r["outcome"] == "cancelled" for r in rec.values()))
    cov.hit("child-returned", any(r["outcome"] == "returned" for r in rec.values()))
    cov.hit("late-start-refused-or-joined", any("late_started" in r for r in rec.values()))
    cov.hit("grandchild-joined", any(k.endswith(".g") for k in rec))
    cov.hit("shielded-cleanup-ran", any(r["cancel_seen"] and r["outcome"] == "cancelled" for r in rec.values()))
    cov.hit("host-native-cancel-in-aexit", state.get("native_host", 0) >= 1)
    cov.hit("external-spawn-accepted", state.get("ext_spawn") == "accepted")
    cov.hit("external-spawn-refused", state.get("ext_spawn") == "refused")
    chk(not viol, viol[0][0] if viol else "", viol[:3])
