"""C06: deadlines fire exactly when due; timeout helpers report them faithfully (scope_tree.scn, clauses C06:*)."""
from symx.harness import scope_tree
from symx.vloop import STUBS as LOOP_STUBS

NAME = "c06_deadline"
PROP = "C06"
STUBS = LOOP_STUBS
ASSUMPTIONS = ["deadlines, sleep durations and reassignment instants are integer virtual-clock ticks; the reference fires a scope at the first tick >= its deadline while active "
               "(immediately if already passed when armed); a deadline due in the very tick in which the block ends or the deadline is reassigned is a tie and not judged",
               "current_effective_deadline() is compared at every operation entry with the closed form over the real scopes' flags"]
OUTSIDE = ["fractional times (float rounding of the loop clock)", "depth > 2 with deadlines", "uvloop, trio"]
MUST_REACH = ["deadline-fired", "deadline-in-the-past-at-entry", "deadline-moved", "fail-helper-raised-timeouterror"]


def units(tier):
    quick = tier == "quick"
    us = []
    B = 240 if quick else 1500

    def add(name, **p):
        p.setdefault("T", 2)
        p.setdefault("shields", tuple([False] * p["D"]))
        p["props"] = [PROP]
        us.append({"name": name, "fn": scope_tree.scn, "params": p, "budget_s": B})

    add("D=1 deadline", D=1, deadlines=(0,))
    add("D=1 deadline re-armed", D=1, deadlines=(0,), redeadline=(0,))
    add("D=2 deadlines both", D=2, deadlines=(0, 1), T=1)
    add("D=2 outer deadline inner shield sym", D=2, deadlines=(0,), shields="sym", T=1)
    for h in ("move_on_after", "fail_after", "move_on_at", "fail_at"):
        add("D=1 %s" % h, D=1, deadlines=(0,), helper=h)
        add("D=2 inner %s outer deadline" % h, D=2, deadlines=(0, 1), helper=h, T=1)
    add("D=1 deadline: inf at tick 1, then re-armed", D=1, deadlines=(0,), redeadline=(0,), script=[("deadline", 0, "inf", 1, 0)], T=3, J=0)
    add("D=2 both, outer moved", D=2, deadlines=(0, 1), redeadline=(0,), T=1, J=0)
    add("D=2 both, inner shield raised", D=2, deadlines=(0, 1), toggle=(1, True), T=1, J=0)
    add("D=1 fail_at re-armed", D=1, deadlines=(0,), helper="fail_at", redeadline=(0,), T=1)
    add("D=1 deadline initially inf or finite, re-armed", D=1, deadlines=(0,), redeadline=(0,), dl_may_be_inf=True, T=1)
    add("D=2 inner initially inf or finite, re-armed", D=2, deadlines=(1,), redeadline=(1,), dl_may_be_inf=True, T=1, J=0)
    add("D=1 deadline assigned before entry", D=1, deadlines=(0,), deadline_outside="before")
    add("D=1 deadline assigned after exit", D=1, deadlines=(0,), deadline_outside="after", T=1)
    add("D=1 fail_after re-armed", D=1, deadlines=(0,), helper="fail_after", redeadline=(0,), T=1)
    add("D=1 move_on_after explicit cancel", D=1, deadlines=(0,), helper="move_on_after", cancel=0, T=1, J=1)
    add("D=2 inner deadline re-armed outer cancel", D=2, deadlines=(1,), redeadline=(1,), cancel=0, T=1, J=0, post0=True)
    if not quick:
        add("D=1 deadline re-armed twice", D=1, deadlines=(0,), redeadline=(0,), redeadline2=True, J=0)
        add("D=2 deadlines both T=2", D=2, deadlines=(0, 1), T=2)
        add("D=2 inner re-armed T=2", D=2, deadlines=(1,), redeadline=(1,), T=2)
        add("D=3 deadlines 0,2 shields sym", D=3, deadlines=(0, 2), shields="sym", T=1)
        add("D=1 deadline eager child", D=1, deadlines=(0,), in_child=True, eager=True)
    return us
