"""C08: checkpoint discipline -- blocking primitives always check cancellation and yield.

One unit per (operation, fast-path state) cell.  The call is made inside a chain of two real cancel scopes
whose cancel flags and the inner shield flag are SYMBOLIC (so 'effectively cancelled' is decided by z3), with
symbolic state parameters (semaphore value, tokens, buffer fill, delay <= 0).
Oracle: effectively cancelled at the call => the cancellation exception is raised and the object state is
unchanged; otherwise a call_soon marker queued immediately before the call has run when the call returns.
fast_acquire=True and *_nowait/close calls are exempt and asserted to be synchronous instead.
"""
from __future__ import annotations

import asyncio
import math

from symx.core import Violation, chk
from symx.vloop import STUBS as LOOP_STUBS
from symx.vloop import CycleBudget, Deadlock, VLoop

NAME = "c08_checkpoint"
STUBS = LOOP_STUBS + ["to_thread.run_sync is only exercised in an effectively cancelled scope (no thread may be started there); WorkerThread.start is replaced by a recorder"]
ASSUMPTIONS = ["scope chain: outer scope (cancel flag symbolic) > inner scope (cancel and shield flags symbolic); the flags are set by the task itself before the call"]
OUTSIDE = ["states in which the operation must really wait (C03)", "to_thread.run_sync outside a cancelled scope (needs a real thread: C14)", "uvloop, trio"]
MUST_REACH = ["raised-in-cancelled-scope", "yielded", "shield-protected", "sync-exempt-call", "itertools-traversal-checkpointed"]

OPS = ["sleep", "checkpoint", "event_wait_set", "lock_acquire", "lock_ctx", "sem_acquire", "limiter_acquire", "limiter_ctx", "cond_acquire", "cond_wait_cancelled",
       "send_room", "send_to_waiting_receiver", "receive_buffered", "receive_from_waiting_sender", "future_wait", "future_await", "handle_wait", "handle_await",
       "reduce_empty_initial", "reduce_empty_async_initial", "reduce_single_no_initial", "reduce_single_async_no_initial", "run_sync_cancelled", "taskgroup_empty"]
SYNC_OPS = ["lock_fast", "sem_fast", "lock_nowait", "sem_nowait", "limiter_nowait", "send_nowait", "receive_nowait", "close", "event_set", "cond_notify"]
ITER_FUNCS = ["accumulate", "batched", "chain", "combinations", "combinations_with_replacement", "compress", "cycle0", "dropwhile", "filterfalse", "groupby",
              "islice", "islice_empty_range", "pairwise", "permutations", "product", "repeat", "repeat0", "starmap", "takewhile", "zip_longest", "zip_longest_none", "tee", "count_prefix",
              "tee_second", "tee_fork_exhausted", "tee_fork_mid", "accumulate_initial", "chain_from_iterable", "islice_step", "zip_longest_fill"]


def cell(sym, cov, op, outermost=False, hist="direct"):
    """hist: 'direct' -- the task cancels the scopes itself right before the call;
             'after-shield' -- a peer cancels them while the task spends a few cycles in a nested shielded section (so the
             cancellation delivery has gone idle); the call is made after that section has been left"""
    import anyio
    from anyio import CancelScope, WouldBlock, create_memory_object_stream

    loop = VLoop()
    c0 = sym.bool("outer_cancelled")
    c1 = sym.bool("inner_cancelled")
    s1 = sym.bool("inner_shield")
    out = {}

    async def main():
        marker = []
        state_before = None
        # ---- set up the object in a state where the call can complete without waiting ----------
        undo = None
        if op == "sleep":
            d = sym.int("delay", -2, 0)
            call = lambda: anyio.sleep(d)  # noqa: E731
            snap = lambda: None  # noqa: E731
        elif op == "checkpoint":
            call = lambda: anyio.lowlevel.checkpoint()  # noqa: E731
            snap = lambda: None  # noqa: E731
        elif op in ("event_wait_set", "event_wait_set_core"):
            ev = anyio.Event()
            ev.set()
            call = ev.wait
            snap = lambda: ev.is_set()  # noqa: E731
        elif op in ("lock_acquire", "lock_ctx"):
            lk = anyio.Lock()
            call = lk.acquire if op == "lock_acquire" else lk.__aenter__
            snap = lambda: (lk.locked(), lk.statistics().tasks_waiting)  # noqa: E731
            undo = lk.release
        elif op == "sem_acquire":
            val = sym.int("value", 1, 1 << 20)
            sem = anyio.Semaphore(val)
            call = sem.acquire
            snap = lambda: (sem.value, sem.statistics().tasks_waiting)  # noqa: E731
            undo = sem.release
        elif op in ("limiter_acquire", "limiter_ctx"):
            tot = sym.int("total", 1, 1 << 20)
            lim = anyio.CapacityLimiter(tot)
            call = lim.acquire if op == "limiter_acquire" else lim.__aenter__
            snap = lambda: (lim.borrowed_tokens, lim.statistics().tasks_waiting)  # noqa: E731
            undo = lim.release
        elif op == "cond_acquire":
            cond = anyio.Condition()
            call = cond.acquire
            snap = lambda: (cond.locked(), cond.statistics().tasks_waiting)  # noqa: E731
            undo = cond.release
        elif op == "cond_wait_cancelled":
            cond = anyio.Condition()
            await cond.acquire()
            call = cond.wait
            snap = lambda: (cond.locked(), cond.statistics().tasks_waiting,  # noqa: E731
                            cond.statistics().lock_statistics.owner is not None and cond.statistics().lock_statistics.owner.id == id(asyncio.current_task()))
        elif op in ("send_room", "send_to_waiting_receiver", "receive_buffered", "receive_from_waiting_sender"):
            size = sym.int("bufsize", 1, 3) if op in ("send_room", "receive_buffered") else 0
            tx, rx = create_memory_object_stream(size)
            helper_task = None
            if op == "receive_buffered":
                fill = sym.int("fill", 1, 3)
                sym.assume(fill <= size)
                for q in range(3):
                    if q < fill:
                        tx.send_nowait(q)
                call = rx.receive
            elif op == "send_room":
                fill = sym.int("fill", 0, 2)
                sym.assume(fill < size)
                for q in range(2):
                    if q < fill:
                        tx.send_nowait(q)
                call = lambda: tx.send("x")  # noqa: E731
            elif op == "send_to_waiting_receiver":
                got = []

                async def rcv():
                    got.append(await rx.receive())

                helper_task = asyncio.ensure_future(rcv())
                await anyio.wait_all_tasks_blocked()
                call = lambda: tx.send("x")  # noqa: E731
            else:
                async def snd():
                    await tx.send("y")

                helper_task = asyncio.ensure_future(snd())
                await anyio.wait_all_tasks_blocked()
                call = rx.receive
            snap = lambda: (tx.statistics().current_buffer_used, tx.statistics().tasks_waiting_send, tx.statistics().tasks_waiting_receive)  # noqa: E731
            out["cleanup"] = (tx, rx, helper_task)
        elif op in ("future_wait", "future_await"):
            fut = anyio.Future()
            fut.return_value = 5
            call = fut.wait if op == "future_wait" else (lambda: _aw(fut))
            snap = lambda: fut.status.name  # noqa: E731
        elif op in ("handle_wait", "handle_await"):
            async def quick():
                return 7

            async with anyio.create_task_group() as tg0:
                h = tg0.create_task(quick())
            call = h.wait if op == "handle_wait" else (lambda: _aw(h))
            snap = lambda: h.status.name  # noqa: E731
        elif op in ("reduce_empty_initial", "reduce_empty_async_initial"):
            # the case in which reduce() can complete without calling the (user supplied) function at all
            from anyio.functools import reduce

            calls = []

            async def add(x, y):
                calls.append(1)
                return x + y

            async def noitems():
                return
                yield

            call = (lambda: reduce(add, [], 0)) if op == "reduce_empty_initial" else (lambda: reduce(add, noitems(), 0))  # noqa: E731
            snap = lambda: len(calls)  # noqa: E731
        elif op in ("reduce_single_no_initial", "reduce_single_async_no_initial"):
            # one element and no initial value: the function is never called either
            from anyio.functools import reduce

            calls = []

            async def add(x, y):
                calls.append(1)
                return x + y

            async def one():
                yield 5

            call = (lambda: reduce(add, [5])) if op == "reduce_single_no_initial" else (lambda: reduce(add, one()))  # noqa: E731
            snap = lambda: len(calls)  # noqa: E731
        elif op == "run_sync_cancelled":
            import anyio._backends._asyncio as B

            started = []
            ran = []
            saved = B.WorkerThread.start
            B.WorkerThread.start = lambda self: started.append(self)
            out["restore"] = lambda: setattr(B.WorkerThread, "start", saved)
            lim = anyio.CapacityLimiter(1)
            call = lambda: anyio.to_thread.run_sync(lambda: ran.append(1), limiter=lim)  # noqa: E731
            snap = lambda: (len(started), len(ran), lim.borrowed_tokens)  # noqa: E731
        elif op == "taskgroup_empty":
            async def tgcall():
                async with anyio.create_task_group():
                    pass

            call = tgcall
            snap = lambda: None  # noqa: E731
        else:
            raise AssertionError(op)

        need_cancel_only = op in ("cond_wait_cancelled", "run_sync_cancelled")
        # thorough tier: a third, outermost scope with its own symbolic cancel flag and a symbolic shield on `outer`
        c2 = sym.bool("outermost_cancelled") if outermost else False
        s0 = sym.bool("outer_shield") if outermost else False
        with CancelScope() as outermost_scope, CancelScope(shield=s0) as outer:
            with CancelScope(shield=s1) as inner:
                def do_cancels():
                    if c2:
                        outermost_scope.cancel()
                    if c0:
                        outer.cancel()
                    if c1:
                        inner.cancel()

                if hist == "after-shield":
                    with CancelScope(shield=True):
                        loop.call_soon(do_cancels)
                        for _ in range(4):
                            await asyncio.sleep(0)
                else:
                    do_cancels()
                eff = bool(c1) or (not s1 and (bool(c0) or (not s0 and bool(c2))))
                if need_cancel_only and not eff:
                    sym.assume(False)
                state_before = snap()
                seen_during = []

                def observe():
                    # a peer looking at the object while the call is suspended
                    marker.append(1)
                    try:
                        seen_during.append(snap())
                    except Exception:
                        pass

                loop.call_soon(observe)
                try:
                    await call()
                    raised = False
                except asyncio.CancelledError:
                    raised = True
                out["raised"] = raised
                out["eff"] = eff
                out["yielded"] = bool(marker)
                out["state_unchanged"] = snap() == state_before
                out["state"] = (state_before, snap())
                out["seen_during"] = (not seen_during) or seen_during[0] == state_before or op in ("cond_wait_cancelled",)
                if raised and op == "cond_wait_cancelled":
                    out["still_holds_lock"] = snap()[2]
                    cond.release()
                if not raised and undo is not None:
                    undo()
        out["outer_caught"] = outer.cancelled_caught
        if "cleanup" in out:
            tx, rx, ht = out.pop("cleanup")
            tx.close()
            rx.close()
            if ht is not None:
                ht.cancel()
                try:
                    await ht
                except BaseException:
                    pass
        if "restore" in out:
            out.pop("restore")()

    try:
        loop.run(main(), max_cycles=300)
    except (Deadlock, CycleBudget) as e:
        raise Violation("liveness:" + type(e).__name__)
    if out["eff"] and op == "taskgroup_empty":
        # leaving an empty task group is only required to yield (it is not in the property's table of
        # operations that must raise); nothing to judge in a cancelled scope
        chk(out["yielded"], "returned-without-yielding-to-the-event-loop", {"op": op})
    elif out["eff"]:
        chk(out["raised"], "no-cancellation-raised-in-effectively-cancelled-scope", {"op": op})
        chk(out["state_unchanged"], "effect-performed-although-cancelled", {"op": op, "state": out["state"]})
        chk(out["seen_during"], "effect-visible-to-a-peer-while-the-cancelled-call-was-suspended", {"op": op})
        if op == "cond_wait_cancelled":
            chk(out["still_holds_lock"], "condition-wait-lost-the-lock")
        cov.hit("raised-in-cancelled-scope")
    else:
        chk(not out["raised"], "cancellation-raised-outside-effectively-cancelled-scope", {"op": op})
        chk(out["yielded"], "returned-without-yielding-to-the-event-loop", {"op": op})
        cov.hit("yielded")
        cov.hit("shield-protected", bool(c0) and bool(s1))


async def _aw(x):
    return await x


def sync_cell(sym, cov, op):
    """exempt calls: must complete synchronously (no suspension), also inside a cancelled scope."""
    import anyio
    from anyio import CancelScope, WouldBlock, create_memory_object_stream

    loop = VLoop()
    cancelled = sym.bool("cancelled")
    out = {}

    async def main():
        with CancelScope() as sc:
            if cancelled:
                sc.cancel()
            c0 = loop.cycles
            if op == "lock_fast":
                lk = anyio.Lock(fast_acquire=True)
                if not cancelled:
                    await lk.acquire()
                    out["ok"] = lk.locked()
                    lk.release()
                else:
                    try:
                        await lk.acquire()
                        out["ok"] = False
                    except asyncio.CancelledError:
                        out["ok"] = not lk.locked()
                        out["cycles"] = 0
                        return
            elif op == "sem_fast":
                sem = anyio.Semaphore(sym.int("value", 1, 1 << 20), fast_acquire=True)
                v0 = sem.value
                if not cancelled:
                    await sem.acquire()
                    out["ok"] = sem.value == v0 - 1
                else:
                    try:
                        await sem.acquire()
                        out["ok"] = False
                    except asyncio.CancelledError:
                        out["ok"] = sem.value == v0
                        out["cycles"] = 0
                        return
            elif op == "lock_nowait":
                lk = anyio.Lock()
                lk.acquire_nowait()
                out["ok"] = lk.locked()
                lk.release()
            elif op == "sem_nowait":
                sem = anyio.Semaphore(1)
                sem.acquire_nowait()
                try:
                    sem.acquire_nowait()
                    out["ok"] = False
                except WouldBlock:
                    out["ok"] = sem.value == 0
            elif op == "limiter_nowait":
                lim = anyio.CapacityLimiter(1)
                lim.acquire_nowait()
                out["ok"] = lim.borrowed_tokens == 1
                lim.release()
            elif op in ("send_nowait", "receive_nowait", "close"):
                tx, rx = create_memory_object_stream(1)
                tx.send_nowait(1)
                out["ok"] = rx.receive_nowait() == 1
                tx.close()
                rx.close()
            elif op == "event_set":
                ev = anyio.Event()
                ev.set()
                out["ok"] = ev.is_set()
            elif op == "cond_notify":
                cond = anyio.Condition()
                cond.acquire_nowait()
                cond.notify()
                cond.notify_all()
                cond.release()
                out["ok"] = not cond.locked()
            out["cycles"] = loop.cycles - c0

    loop.run(main(), max_cycles=100)
    chk(out.get("ok"), "exempt-call-misbehaved", op)
    chk(out["cycles"] == 0, "exempt-call-suspended", {"op": op, "cycles": out["cycles"]})
    cov.hit("sync-exempt-call")


def iter_cell(sym, cov, fn):
    """a full traversal of an anyio.itertools iterator over a SYNC iterable (or one that yields nothing)
    passes a checkpoint: a marker queued before the traversal has run when it ends; in a cancelled scope the
    traversal raises."""
    import anyio
    import anyio.itertools as ai
    from anyio import CancelScope

    loop = VLoop()
    n = sym.int("n", 0, 2)
    cancelled = sym.bool("cancelled")
    out = {}
    xs = [1, 2][:n]

    async def ident(x, y=None):
        return x if y is None else x + y

    async def truthy(x):
        return True

    async def falsy(x):
        return False

    def make():
        if fn == "accumulate":
            return ai.accumulate(xs)
        if fn == "batched":
            return ai.batched(xs, 2)
        if fn == "chain":
            return ai.Chain()(xs, [])
        if fn == "combinations":
            return ai.combinations(xs, 1)
        if fn == "combinations_with_replacement":
            return ai.combinations_with_replacement(xs, 1)
        if fn == "compress":
            return ai.compress(xs, [1, 0][:n])
        if fn == "cycle0":
            return ai.cycle([])
        if fn == "dropwhile":
            return ai.dropwhile(truthy, xs)
        if fn == "filterfalse":
            return ai.filterfalse(truthy, xs)
        if fn == "groupby":
            return ai.groupby(xs)
        if fn == "islice":
            return ai.islice(xs, 1)
        if fn == "islice_empty_range":
            return ai.islice(xs, 0)
        if fn == "pairwise":
            return ai.pairwise(xs)
        if fn == "permutations":
            return ai.permutations(xs, 1)
        if fn == "product":
            return ai.product(xs, [])
        if fn == "repeat":
            return ai.repeat(1, n)
        if fn == "repeat0":
            return ai.repeat(1, 0)
        if fn == "starmap":
            return ai.starmap(ident, [(x, x) for x in xs])
        if fn == "takewhile":
            return ai.takewhile(falsy, xs)
        if fn == "zip_longest":
            return ai.zip_longest(xs, [])
        if fn == "zip_longest_none":
            return ai.zip_longest()
        if fn == "tee":
            return ai.tee(xs, 1)[0]
        if fn == "count_prefix":
            return ai.islice(ai.count(), n)
        if fn == "accumulate_initial":
            return ai.accumulate(xs, initial=0)
        if fn == "chain_from_iterable":
            return ai.chain.from_iterable([xs, []])
        if fn == "islice_step":
            return ai.islice(xs, 0, None, 2)
        if fn == "zip_longest_fill":
            return ai.zip_longest(xs, [], fillvalue=0)
        raise AssertionError(fn)

    async def amake():
        # iterators that need some asynchronous preparation OUTSIDE the (possibly cancelled) scope
        if fn == "tee_second":
            # the sibling iterator has already pulled everything from the source: this one is served from the links
            a, b = ai.tee(xs, 2)
            async for _ in a:
                pass
            return b
        if fn == "tee_fork_exhausted":
            # the "peekable iterator" idiom: tee(iterator, 1) forks an existing tee iterator -- here one that has been run to its end
            (a,) = ai.tee(xs, 1)
            async for _ in a:
                pass
            return ai.tee(a, 1)[0]
        if fn == "tee_fork_mid":
            a, b = ai.tee(xs, 2)
            async for _ in a:
                pass
            if n >= 1:
                await anext(b)
            return ai.tee(b, 1)[0]
        return make()

    async def main():
        marker = []
        it = await amake()
        for _ in range(3):
            await asyncio.sleep(0)
        with CancelScope() as sc:
            if cancelled:
                sc.cancel()
            loop.call_soon(marker.append, 1)
            try:
                out["items"] = [x async for x in it]
                out["raised"] = False
            except asyncio.CancelledError:
                out["raised"] = True
            out["yielded"] = bool(marker)

    try:
        loop.run(main(), max_cycles=300)
    except (Deadlock, CycleBudget) as e:
        raise Violation("liveness:" + type(e).__name__)
    if cancelled:
        chk(out["raised"], "traversal-completed-in-cancelled-scope", {"fn": fn, "n": n})
    else:
        chk(not out["raised"], "traversal-raised-outside-cancelled-scope", fn)
        chk(out["yielded"], "traversal-without-checkpoint", {"fn": fn, "n": n})
        cov.hit("itertools-traversal-checkpointed")


def units(tier):
    us = []
    for op in OPS:
        us.append({"name": "op %s" % op, "fn": cell, "params": {"op": op}, "budget_s": 60})
    for op in OPS:
        if op not in ("taskgroup_empty",):
            us.append({"name": "op %s after a shielded section during which a peer cancelled" % op, "fn": cell, "params": {"op": op, "hist": "after-shield"}, "budget_s": 60})
    if tier != "quick":
        for op in OPS:
            us.append({"name": "op %s (3 scopes) after a shielded section" % op, "fn": cell, "params": {"op": op, "outermost": True, "hist": "after-shield"}, "budget_s": 300})
        for op in OPS:
            us.append({"name": "op %s (3 scopes)" % op, "fn": cell, "params": {"op": op, "outermost": True}, "budget_s": 300})
    for op in SYNC_OPS:
        us.append({"name": "sync %s" % op, "fn": sync_cell, "params": {"op": op}, "budget_s": 30})
    for fn in ITER_FUNCS:
        us.append({"name": "iter %s" % fn, "fn": iter_cell, "params": {"fn": fn}, "budget_s": 60})
    return us
