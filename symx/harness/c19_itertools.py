"""C19: anyio.itertools / anyio.functools.reduce agree with the standard library (differential harness).

Elements are symbolic ints (equality / ordering / truthiness decided by z3), the length of the input
and the integer parameters are symbolic (realised per value where they cross into C), the source kind
(sync / async iterable) is a case split.  Oracle = the stdlib namesake on the same arguments.
tee: consumers run as tasks on VLoop with symbolic sleeps between their anext() calls.
"""
from __future__ import annotations

import functools as std_functools
import itertools as std

from symx.core import Violation, chk
from symx.vloop import STUBS as LOOP_STUBS
from symx.vloop import CycleBudget, Deadlock, VLoop

NAME = "c19_itertools"
STUBS = LOOP_STUBS
ASSUMPTIONS = ["callbacks: x + y, x > c, x // 2 (async for anyio, the same function synchronously for the stdlib)",
               "infinite iterators (count, cycle, repeat(None)) are compared on a prefix of symbolic length <= 5",
               "Python 3.12 stdlib: itertools.batched has no strict= parameter, strict=True is compared with a 3-line reference"]
OUTSIDE = ["inputs longer than the stated bound", "non-integer elements", "uvloop, trio"]
MUST_REACH = ["both-raised", "nonempty-result", "empty-result", "tee:interleaved", "tee:source-consumed-once"]

FUNCS = ["accumulate", "accumulate_initial", "accumulate_default", "accumulate_nullsum", "accumulate_default_none", "tee_pipeline", "accumulate_default_lists", "accumulate_default_lists_initial", "batched", "batched_strict", "chain", "chain_from_iterable", "combinations", "combinations_with_replacement",
         "compress", "count", "cycle", "dropwhile", "filterfalse", "groupby", "groupby_key", "islice1", "islice2", "islice3", "pairwise", "permutations", "product",
         "repeat", "starmap", "takewhile", "zip_longest", "reduce", "reduce_initial"]


class _AIterable:
    """an asynchronous ITERABLE that is not an iterator: every __aiter__() call starts a fresh traversal"""

    def __init__(self, xs):
        self.xs = xs
        self.traversals = 0

    def __aiter__(self):
        self.traversals += 1

        async def agen():
            for x in self.xs:
                yield x

        return agen()


def _src(kind, xs):
    if kind == "sync":
        return list(xs)
    if kind == "aiterable":
        return _AIterable(list(xs))

    async def agen():
        for x in xs:
            yield x

    return agen()


def diff(sym, cov, fn, kind, L):
    import anyio.functools as af
    import anyio.itertools as ai

    n = sym.int("n", 0, L)
    xs = [sym.int("x%d" % i, -5, 5) for i in range(L)][:n]
    sym.note("xs", xs)
    lo, hi = (-1, L + 1) if fn == "islice3" else (-2, L + 2)
    a = sym.optint("a", lo, hi)
    b = sym.optint("b", lo, hi)
    c = sym.optint("c", -1 if fn == "islice3" else -2, 2 if fn == "islice3" else 3)
    k = sym.int("k", 0, 5)
    thr = sym.int("thr", -5, 5)
    # integer parameters cross into the C itertools: make them concrete here (one path per value, enumerated
    # by the solver) so that both sides see the same plain int
    used = {"batched": "b", "batched_strict": "b", "combinations": "a", "combinations_with_replacement": "a", "permutations": "a", "product": "c",
            "count": "ack", "cycle": "k", "repeat": "bk", "islice1": "b", "islice2": "ab", "islice3": "abc"}.get(fn, "")
    if "a" in used:
        a = sym.realize(a)
    if "b" in used:
        b = sym.realize(b)
    if "c" in used:
        c = sym.realize(c)
    if "k" in used:
        k = sym.realize(k)

    async def aadd(x, y):
        return x + y

    async def agt(x):
        return x > thr

    async def ahalf(x):
        return x // 2

    def sadd(x, y):
        return x + y

    def sgt(x):
        return x > thr

    def shalf(x):
        return x // 2

    async def collect(it, limit=None):
        out = []
        async for v in it:
            out.append(v)
            if limit is not None and len(out) >= limit:
                break
        return out

    def norm(v):
        # groupby yields (key, list) in anyio and (key, iterator) in the stdlib
        return v

    side: dict = {}

    async def main():
        S = lambda seq=xs: _src(kind, seq)  # noqa: E731
        ys = [x + 1 for x in xs[:2]]
        if fn == "accumulate":
            exp = lambda: list(std.accumulate(list(xs), sadd))  # noqa: E731
            got = lambda: collect(ai.accumulate(S(), aadd))  # noqa: E731
        elif fn in ("accumulate_nullsum", "accumulate_default_none"):
            # None among the elements / as a running total (a NULL-propagating sum)
            zs = [None if x < thr else x for x in xs]

            def snull(p_, q_):
                return None if p_ is None or q_ is None else p_ + q_

            async def anull(p_, q_):
                return snull(p_, q_)

            if fn == "accumulate_nullsum":
                exp = lambda: list(std.accumulate(list(zs), snull))  # noqa: E731
                got = lambda: collect(ai.accumulate(S(zs), anull))  # noqa: E731
            else:
                exp = lambda: list(std.accumulate(list(zs)))  # noqa: E731
                got = lambda: collect(ai.accumulate(S(zs)))  # noqa: E731
        elif fn == "tee_pipeline":
            # a tee() whose source is a pipeline fed by an iterator of ANOTHER tee() (the two groups must not share state)
            def ref():
                return list(std.pairwise(list(xs))) + list(xs)

            async def g():
                a_, b_ = ai.tee(S(), 2)
                (p_,) = ai.tee(ai.pairwise(a_), 1)
                return (await collect(p_)) + (await collect(b_))

            exp, got = ref, g
        elif fn == "accumulate_default":
            exp = lambda: list(std.accumulate(list(xs)))  # noqa: E731
            got = lambda: collect(ai.accumulate(S()))  # noqa: E731
        elif fn in ("accumulate_default_lists", "accumulate_default_lists_initial"):
            # elements with an in-place `+=` (lists): the default function must behave like operator.add -- the running
            # totals are new objects, neither the source elements nor `initial` are modified
            src_a = [[x] for x in xs]
            src_b = [[x] for x in xs]
            init_a, init_b = [thr], [thr]
            kw_a = {"initial": init_a} if fn.endswith("initial") else {}
            kw_b = {"initial": init_b} if fn.endswith("initial") else {}

            async def g():
                out = []
                async for v_ in ai.accumulate(_src(kind, src_a), **kw_a):
                    out.append(list(v_))  # snapshot at the moment it is yielded
                if not (src_a == [[x] for x in xs] and init_a == [thr]):
                    side["input-modified"] = {"source": src_a, "initial": init_a}
                return out

            def ref():
                return [list(v_) for v_ in std.accumulate(src_b, **kw_b)]

            exp, got = ref, g
        elif fn == "accumulate_initial":
            exp = lambda: list(std.accumulate(list(xs), sadd, initial=thr))  # noqa: E731
            got = lambda: collect(ai.accumulate(S(), aadd, initial=thr))  # noqa: E731
        elif fn == "batched":
            bb = 0 if b is None else b
            exp = lambda: list(std.batched(list(xs), bb))  # noqa: E731
            got = lambda: collect(ai.batched(S(), bb))  # noqa: E731
        elif fn == "batched_strict":
            bb = 1 if b is None else b

            def ref():
                if bb < 1:
                    raise ValueError("n must be at least one")
                out = [tuple(xs[i:i + bb]) for i in range(0, len(xs), bb)]
                if out and len(out[-1]) != bb:
                    raise ValueError("incomplete batch")
                return out

            exp = ref
            got = lambda: collect(ai.batched(S(), bb, strict=True))  # noqa: E731
        elif fn == "chain":
            exp = lambda: list(std.chain(list(xs), list(ys)))  # noqa: E731
            got = lambda: collect(ai.Chain()(S(), _src(kind, ys)))  # noqa: E731
        elif fn == "chain_from_iterable":
            exp = lambda: list(std.chain.from_iterable([list(xs), list(ys), []]))  # noqa: E731
            got = lambda: collect(ai.Chain().from_iterable(_src(kind, [S(), _src(kind, ys), []])))  # noqa: E731
        elif fn in ("combinations", "combinations_with_replacement"):
            r = 0 if a is None else a
            exp = lambda: list(getattr(std, fn)(list(xs), r))  # noqa: E731
            got = lambda: collect(getattr(ai, fn)(S(), r))  # noqa: E731
        elif fn == "permutations":
            exp = lambda: list(std.permutations(list(xs), a))  # noqa: E731
            got = lambda: collect(ai.permutations(S(), a))  # noqa: E731
        elif fn == "product":
            rep = 1 if c is None else c
            exp = lambda: list(std.product(list(xs), list(ys), repeat=rep))  # noqa: E731
            got = lambda: collect(ai.product(S(), _src(kind, ys), repeat=rep))  # noqa: E731
        elif fn == "compress":
            sel = [x > thr for x in xs][: max(0, n - 1)] + [1]
            exp = lambda: list(std.compress(list(xs), list(sel)))  # noqa: E731
            got = lambda: collect(ai.compress(S(), _src(kind, sel)))  # noqa: E731
        elif fn == "count":
            st = 0 if a is None else a
            sp = 1 if c is None else c
            exp = lambda: list(std.islice(std.count(st, sp), k))  # noqa: E731
            got = lambda: collect(ai.count(st, sp), k) if k else _empty()  # noqa: E731
        elif fn == "cycle":
            exp = lambda: list(std.islice(std.cycle(list(xs)), k))  # noqa: E731
            got = lambda: collect(ai.cycle(S()), k) if (k and n) else _empty()  # noqa: E731
        elif fn == "repeat":
            if b is None:
                exp = lambda: list(std.islice(std.repeat(thr), k))  # noqa: E731
                got = lambda: collect(ai.repeat(thr), k) if k else _empty()  # noqa: E731
            else:
                exp = lambda: list(std.repeat(thr, b))  # noqa: E731
                got = lambda: collect(ai.repeat(thr, b))  # noqa: E731
        elif fn in ("dropwhile", "takewhile", "filterfalse"):
            exp = lambda: list(getattr(std, fn)(sgt, list(xs)))  # noqa: E731
            got = lambda: collect(getattr(ai, fn)(agt, S()))  # noqa: E731
        elif fn == "groupby":
            exp = lambda: [(kk, list(g)) for kk, g in std.groupby(list(xs))]  # noqa: E731
            got = lambda: collect(ai.groupby(S()))  # noqa: E731
        elif fn == "groupby_key":
            exp = lambda: [(kk, list(g)) for kk, g in std.groupby(list(xs), shalf)]  # noqa: E731
            got = lambda: collect(ai.groupby(S(), ahalf))  # noqa: E731
        elif fn.startswith("islice"):
            nargs = int(fn[-1])
            args = (b,) if nargs == 1 else ((a, b) if nargs == 2 else (a, b, c))
            exp = lambda: list(std.islice(list(xs), *args))  # noqa: E731
            got = lambda: collect(ai.islice(S(), *args))  # noqa: E731
        elif fn == "pairwise":
            exp = lambda: list(std.pairwise(list(xs)))  # noqa: E731
            got = lambda: collect(ai.pairwise(S()))  # noqa: E731
        elif fn == "starmap":
            pairs = [(x, x + 1) for x in xs]
            exp = lambda: list(std.starmap(sadd, list(pairs)))  # noqa: E731
            got = lambda: collect(ai.starmap(aadd, _src(kind, pairs)))  # noqa: E731
        elif fn == "zip_longest":
            exp = lambda: list(std.zip_longest(list(xs), list(ys), fillvalue=thr))  # noqa: E731
            got = lambda: collect(ai.zip_longest(S(), _src(kind, ys), fillvalue=thr))  # noqa: E731
        elif fn == "reduce":
            exp = lambda: [std_functools.reduce(sadd, list(xs))]  # noqa: E731

            async def g():
                return [await af.reduce(aadd, S())]

            got = g
        elif fn == "reduce_initial":
            exp = lambda: [std_functools.reduce(sadd, list(xs), thr)]  # noqa: E731

            async def g():
                return [await af.reduce(aadd, S(), thr)]

            got = g
        else:
            raise AssertionError(fn)
        try:
            e = ("ok", exp())
        except Exception as ex:
            e = ("exc", type(ex))
        try:
            r = ("ok", await got())
        except Exception as ex:
            r = ("exc", type(ex))
        return e, r

    async def _empty():
        return []

    try:
        e, r = VLoop().run(main(), max_cycles=2000)
    except (Deadlock, CycleBudget) as ex:
        raise Violation("liveness:" + type(ex).__name__)
    chk(not side, "function-modified-its-input", side)
    if e[0] == "exc" or r[0] == "exc":
        chk(e[0] == r[0], "one-side-raised", {"stdlib": repr(e), "anyio": repr(r)})
        chk(e[1] is r[1], "different-error-class", {"stdlib": e[1].__name__, "anyio": r[1].__name__})
        cov.hit("both-raised")
        return
    chk(len(e[1]) == len(r[1]), "different-length", {"stdlib": e[1], "anyio": r[1]})
    for i in range(len(e[1])):
        chk(e[1][i] == r[1][i], "different-element", {"index": i, "stdlib": e[1], "anyio": r[1]})
    cov.hit("nonempty-result", len(e[1]) > 0)
    cov.hit("empty-result", len(e[1]) == 0)


def tee_scn(sym, cov, nc, L, kind, eager=False):
    import anyio
    import anyio.itertools as ai

    n = sym.int("n", 0, L)
    xs = [sym.int("x%d" % i, -5, 5) for i in range(L)][:n]
    sym.note("xs", xs)
    gaps = [sym.int("g%d" % i, 0, 2) for i in range(nc)]
    srcdelay = sym.int("sd", 0, 1)
    loop = VLoop(eager=eager)
    calls = [0]
    seen: list = [[] for _ in range(nc)]
    steps: list = []

    class Src:
        def __init__(self):
            self.i = 0

        def __aiter__(self):
            return self

        async def __anext__(self):
            calls[0] += 1
            await anyio.sleep(srcdelay)
            if self.i >= len(xs):
                raise StopAsyncIteration
            v = xs[self.i]
            self.i += 1
            return v

    async def main():
        its = ai.tee(Src() if kind == "async" else list(xs), nc)
        chk(len(its) == nc, "tee-wrong-number-of-iterators")

        async def consumer(i):
            while True:
                await anyio.sleep(gaps[i])
                steps.append(i)
                try:
                    seen[i].append(await anext(its[i]))
                except StopAsyncIteration:
                    return

        async with anyio.create_task_group() as tg:
            for i in range(nc):
                tg.start_soon(consumer, i)

    try:
        loop.run(main(), max_cycles=2000)
    except (Deadlock, CycleBudget) as ex:
        raise Violation("liveness:" + type(ex).__name__)
    for i in range(nc):
        chk(len(seen[i]) == len(xs), "tee-consumer-length", {"consumer": i, "seen": seen[i], "source": xs})
        for j in range(len(xs)):
            chk(seen[i][j] == xs[j], "tee-consumer-sequence", {"consumer": i, "seen": seen[i], "source": xs})
    if kind == "async":
        chk(calls[0] == len(xs) + 1, "tee-source-not-consumed-exactly-once", {"anext_calls": calls[0], "len": len(xs)})
        cov.hit("tee:source-consumed-once")
    cov.hit("tee:interleaved", any(steps[i] != steps[i + 1] for i in range(len(steps) - 1)) and len(xs) > 1)


def tee_args(sym, cov):
    import anyio.itertools as ai

    n = sym.int("n", -2, 3)
    try:
        e = ("ok", len(std.tee([1, 2], n)))
    except Exception as ex:
        e = ("exc", type(ex))
    try:
        r = ("ok", len(ai.tee([1, 2], n)))
    except Exception as ex:
        r = ("exc", type(ex))
    chk(e == r, "tee-argument-handling", {"stdlib": repr(e), "anyio": repr(r)})


def units(tier):
    quick = tier == "quick"
    us = []
    L = 3 if quick else 4
    heavy = {"permutations", "product", "combinations", "combinations_with_replacement", "islice3", "islice2"}
    for fn in FUNCS:
        for kind in ("sync", "async"):
            ll = L - 1 if (fn in heavy and quick) else L
            us.append({"name": "%s %s L=%d" % (fn, kind, ll), "fn": diff, "params": {"fn": fn, "kind": kind, "L": ll}, "budget_s": 240 if quick else 1200})
    if not quick:
        light = [f for f in FUNCS if f not in heavy and f not in ("count", "cycle", "repeat", "batched", "batched_strict", "islice1")]
        for fn in light:
            us.append({"name": "%s sync L=5" % fn, "fn": diff, "params": {"fn": fn, "kind": "sync", "L": 5}, "budget_s": 1500})
    # sources that are asynchronous iterables but not iterators (a fresh traversal per __aiter__ call)
    for fn in FUNCS:
        ll = 2 if quick else (3 if fn in heavy else 4)
        us.append({"name": "%s aiterable L=%d" % (fn, ll), "fn": diff, "params": {"fn": fn, "kind": "aiterable", "L": ll}, "budget_s": 240 if quick else 1200})
    for nc in ((2,) if quick else (2, 3)):
        for kind in ("sync", "async"):
            us.append({"name": "tee nc=%d %s" % (nc, kind), "fn": tee_scn, "params": {"nc": nc, "L": 2 if quick else 3, "kind": kind}, "budget_s": 240 if quick else 1200})
    if not quick:
        us.append({"name": "tee nc=2 async eager", "fn": tee_scn, "params": {"nc": 2, "L": 2, "kind": "async", "eager": True}, "budget_s": 600})
    us.append({"name": "tee args", "fn": tee_args, "params": {}, "budget_s": 30})
    return us
