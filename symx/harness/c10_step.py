"""C10 Layer A: one synchronous step of Semaphore / CapacityLimiter from an arbitrary
state satisfying the representation invariant R (inductive step; histories of any length).

Real code executed: Semaphore.release / acquire_nowait, CapacityLimiter.total_tokens setter,
acquire_on_behalf_of_nowait, release_on_behalf_of, _notify_next_waiter, borrowed_tokens,
available_tokens, statistics.
"""
from __future__ import annotations

import asyncio
import math
from asyncio import events

from symx.core import Violation, chk
from symx.vloop import VLoop

NAME = "c10_step"
BIG = 1 << 40

ASSUMPTIONS = [
    "Layer A pre-states satisfy R_sem: value>=0; value>0 => waiter queue empty; max_value set => value<=max_value; queued futures are pending or cancelled",
    "Layer A pre-states satisfy R_lim: queued events unset; queued borrower not a borrower; borrowers distinct; queue non-empty => borrowed>=total",
    "R is re-asserted after the step (so it is an invariant), and holds in the constructor state",
    "semaphore value / max_value / limiter total range over [0, 2^40] symbolically; borrower set <= 4 and queues <= 3 entries (set/deque/OrderedDict are C containers)",
]
STUBS = ["current_task(): not used by the encoded operations (on_behalf_of variants take the borrower explicitly)"]
OUTSIDE = ["queues longer than 3, more than 4 borrowers", "float totals other than inf are only checked for the TypeError path"]
MUST_REACH = ["sem:handoff-skips-cancelled", "sem:reject-max", "lim:setter-wakes", "lim:setter-lowered-below-borrowed", "lim:release-hands-over", "lim:inf"]


def _with_loop(f):
    def w(sym, cov, **kw):
        loop = VLoop()
        events._set_running_loop(loop)
        try:
            return f(sym, cov, loop, **kw)
        finally:
            events._set_running_loop(None)
            loop.close()

    w.__name__ = f.__name__
    return w


@_with_loop
def sem_step(sym, cov, loop, nq):
    from anyio import WouldBlock
    from anyio._backends._asyncio import Semaphore

    value = sym.int("value", 0, BIG)
    has_max = sym.bool("has_max")
    maxv = sym.int("max", 0, BIG)
    sym.assume((not has_max) or value <= maxv)
    cancelled = [sym.bool("wc%d" % i) for i in range(nq)]
    sym.assume(nq == 0 or value == 0)
    op = sym.int("op", 0, 1)  # 0 release, 1 acquire_nowait
    sem = Semaphore(value, max_value=maxv if has_max else None)
    futs = []
    for i in range(nq):
        f = loop.create_future()
        if cancelled[i]:
            f.cancel()
        futs.append(f)
        sem._waiters.append(f)
    if op == 0:
        try:
            sem.release()
            raised = None
        except ValueError as e:
            raised = e
        if has_max and value == maxv:
            cov.hit("sem:reject-max")
            chk(raised is not None, "sem:release-beyond-max-accepted")
            chk(sem.value == value and list(sem._waiters) == futs, "sem:state-changed-on-reject")
            return
        chk(raised is None, "sem:release-rejected", str(raised))
        live = [i for i in range(nq) if not cancelled[i]]
        if live:
            k = live[0]
            cov.hit("sem:handoff-skips-cancelled", k > 0)
            chk(futs[k].done() and not futs[k].cancelled(), "sem:first-live-waiter-not-woken")
            chk(all(not futs[i].done() for i in live[1:]), "sem:extra-waiter-woken")
            chk(list(sem._waiters) == futs[k + 1:], "sem:queue-not-fifo")
            chk(sem.value == value, "sem:value-incremented-on-handoff")
        else:
            chk(len(sem._waiters) == 0, "sem:cancelled-waiters-left")
            chk(sem.value == value + 1, "sem:value-not-incremented")
    else:
        try:
            sem.acquire_nowait()
            raised = None
        except WouldBlock as e:
            raised = e
        if value == 0:
            chk(raised is not None, "sem:acquire-nowait-without-permit")
            chk(sem.value == 0, "sem:value-changed")
        else:
            chk(raised is None, "sem:acquire-nowait-refused-with-permit")
            chk(sem.value == value - 1, "sem:value-not-decremented")
        chk(list(sem._waiters) == futs, "sem:queue-touched-by-nowait")
    # R again
    chk(sem.value >= 0, "sem:R-negative")
    chk(sem.value == 0 or len(sem._waiters) == 0, "sem:R-free-permit-with-waiters")
    chk((not has_max) or sem.value <= maxv, "sem:R-above-max")
    chk(sem.statistics().tasks_waiting == len(sem._waiters), "sem:statistics")


@_with_loop
def lim_step(sym, cov, loop, nb, nq, op):
    """op: 'set' total_tokens=v | 'acq' acquire_on_behalf_of_nowait | 'rel' release_on_behalf_of"""
    from anyio import WouldBlock
    from anyio._backends._asyncio import CapacityLimiter

    inf0 = sym.bool("total_inf")
    total_i = sym.int("total", 0, BIG)
    total = math.inf if inf0 else total_i
    # R: queue non-empty => borrowed >= total
    sym.assume(nq == 0 or ((not inf0) and nb >= total_i))
    lim = CapacityLimiter(total)
    borrowers = [("b", i) for i in range(nb)]
    waiters = [("w", i) for i in range(nq)]
    evs = []
    for b in borrowers:
        lim._borrowers.add(b)
    for w in waiters:
        e = asyncio.Event()
        lim._wait_queue[w] = e
        evs.append(e)
    cov.hit("lim:inf", inf0)

    def R():
        chk(all(not e.is_set() for e in lim._wait_queue.values()), "lim:R-set-event-queued")
        chk(all(k not in lim._borrowers for k in lim._wait_queue), "lim:R-queued-borrower-holds")
        chk(len(lim._wait_queue) == 0 or lim.borrowed_tokens >= lim.total_tokens, "lim:R-free-token-with-waiters")

    if op == "set":
        kind = sym.int("newkind", 0, 3)  # 0 int, 1 inf, 2 negative, 3 non-int float
        newv_i = sym.int("new", 0, BIG)
        if kind == 0:
            newv = newv_i
        elif kind == 1:
            newv = math.inf
        elif kind == 2:
            newv = -1 - newv_i
        else:
            newv = 1.5
        try:
            lim.total_tokens = newv
            raised = None
        except (TypeError, ValueError) as e:
            raised = e
        if kind >= 2:
            chk(isinstance(raised, ValueError if kind == 2 else TypeError), "lim:bad-total-accepted", repr(raised))
            chk(lim.total_tokens == total and lim.borrowed_tokens == nb and list(lim._wait_queue) == waiters, "lim:state-changed-on-reject")
            return
        chk(raised is None, "lim:setter-raised", repr(raised))
        chk(lim.total_tokens == newv, "lim:total-not-stored")
        # reference: wake in FIFO order while a token is actually free
        granted = 0
        b = nb
        while granted < nq and b < newv:
            granted += 1
            b += 1
        cov.hit("lim:setter-wakes", granted > 0)
        cov.hit("lim:setter-lowered-below-borrowed", nb > newv)
        woken = [i for i in range(nq) if evs[i].is_set()]
        # safety: a permit is granted only when one is actually free
        chk(len(woken) == 0 or nb + len(woken) <= newv, "grant-without-free-token",
            {"borrowed_before": nb, "woken": len(woken), "new_total": newv})
        chk(woken == list(range(len(woken))), "lim:wake-not-fifo", woken)
        chk(len(woken) == granted, "lim:setter-wrong-number-woken", {"woken": len(woken), "model": granted})
        chk(all(waiters[i] in lim._borrowers for i in woken), "lim:woken-without-token")
        chk(list(lim._wait_queue) == waiters[len(woken):], "lim:queue-order")
        chk(lim.borrowed_tokens == nb + len(woken), "lim:borrowed-count")
    elif op == "acq":
        who = sym.int("who", 0, 2)  # 0 fresh, 1 existing borrower, 2 queued waiter
        if who == 1:
            sym.assume(nb > 0)
            x = borrowers[0]
        elif who == 2:
            sym.assume(nq > 0)
            x = waiters[nq - 1]
        else:
            x = ("fresh", 0)
        try:
            lim.acquire_on_behalf_of_nowait(x)
            raised = None
        except (WouldBlock, RuntimeError) as e:
            raised = e
        if who == 1:
            chk(isinstance(raised, RuntimeError), "lim:double-borrow-accepted", repr(raised))
            chk(lim.borrowed_tokens == nb, "lim:borrowed-count")
        elif nq > 0 or nb >= total:
            chk(isinstance(raised, WouldBlock), "lim:nowait-granted-without-free-token", repr(raised))
            chk(lim.borrowed_tokens == nb, "lim:borrowed-count")
        else:
            chk(raised is None, "lim:nowait-refused-with-free-token", repr(raised))
            chk(x in lim._borrowers and lim.borrowed_tokens == nb + 1, "lim:borrowed-count")
        chk(list(lim._wait_queue) == waiters and all(not e.is_set() for e in evs), "lim:queue-touched-by-nowait")
    else:
        who = sym.int("who", 0, 2)
        if who == 1:
            sym.assume(nb > 0)
            x = borrowers[nb - 1]
        elif who == 2:
            sym.assume(nq > 0)
            x = waiters[0]
        else:
            x = ("fresh", 0)
        try:
            lim.release_on_behalf_of(x)
            raised = None
        except RuntimeError as e:
            raised = e
        if who != 1:
            chk(raised is not None, "lim:release-by-non-borrower-accepted")
            chk(lim.borrowed_tokens == nb and list(lim._wait_queue) == waiters, "lim:state-changed-on-reject")
        else:
            chk(raised is None, "lim:release-rejected", repr(raised))
            chk(x not in lim._borrowers, "lim:still-borrower")
            hand = nq > 0 and (nb - 1) < total
            cov.hit("lim:release-hands-over", hand)
            woken = [i for i in range(nq) if evs[i].is_set()]
            if hand:
                chk(woken == [0], "lim:release-wrong-waiter", woken)
                chk(waiters[0] in lim._borrowers and lim.borrowed_tokens == nb, "lim:borrowed-count")
                chk(list(lim._wait_queue) == waiters[1:], "lim:queue-order")
            else:
                chk(woken == [], "grant-without-free-token", {"op": "release", "woken": woken})
                chk(lim.borrowed_tokens == nb - 1 and list(lim._wait_queue) == waiters, "lim:borrowed-count")
    R()
    chk(lim.available_tokens == lim.total_tokens - lim.borrowed_tokens, "lim:available-tokens")
    st = lim.statistics()
    chk(st.borrowed_tokens == len(lim._borrowers) and st.tasks_waiting == len(lim._wait_queue) and st.total_tokens == lim.total_tokens, "lim:statistics")


def adapter_step(sym, cov, kind):
    """The primitive is instantiated OUTSIDE the event loop (SemaphoreAdapter / CapacityLimiterAdapter, bound to a backend
    object on first use inside the loop) and then driven through a symbolic sequence of synchronous operations: every
    reported number and every accept/reject decision equals a counter model, in particular max_value / total_tokens given
    at construction time are honoured by the object that is created later."""
    import anyio
    from anyio import WouldBlock

    viol = []

    def bad(c, d=None):
        viol.append((c, d))

    if kind == "sem":
        value = sym.int("value", 0, 3)
        has_max = sym.bool("has_max")
        maxv = sym.int("max", 0, 3)
        sym.assume((not has_max) or value <= maxv)
        fast = sym.bool("fast")
        prim = anyio.Semaphore(value, max_value=maxv if has_max else None, fast_acquire=fast)
        ops = [sym.int("op%d" % i, 0, 1) for i in range(3)]  # 0 release, 1 acquire_nowait
    else:
        total = sym.int("total", 1, 3)
        prim = anyio.CapacityLimiter(total)
        ops = [sym.int("op%d" % i, 0, 2) for i in range(3)]  # 0 release_on_behalf_of, 1 acquire_on_behalf_of_nowait, 2 total_tokens = nv
        nvs = [sym.int("nv%d" % i, 1, 4) for i in range(3)]
        who = [sym.int("who%d" % i, 0, 1) for i in range(3)]
    chk(type(prim).__name__.endswith("Adapter"), "harness-error:expected-an-adapter", type(prim).__name__)

    class _B:
        pass

    objs = [_B(), _B()]

    async def main():
        if kind == "sem":
            v = value
            if prim.value != v or prim.max_value != (maxv if has_max else None):
                bad("sem:adapter-reports-wrong-initial-state", {"value": prim.value, "max_value": prim.max_value})
            for i, op in enumerate(ops):
                if op == 0:
                    try:
                        prim.release()
                        ok = True
                    except ValueError:
                        ok = False
                    if has_max and v == maxv:
                        cov.hit("adapter:sem-reject-max")
                        if ok:
                            bad("sem:release-beyond-max-accepted", {"value": v, "max_value": maxv, "created": "outside the event loop"})
                    else:
                        if not ok:
                            bad("sem:release-rejected", {"value": v})
                        v += 1
                else:
                    try:
                        prim.acquire_nowait()
                        ok = True
                    except WouldBlock:
                        ok = False
                    if v == 0:
                        if ok:
                            bad("sem:acquire-nowait-without-permit")
                    else:
                        if not ok:
                            bad("sem:acquire-nowait-refused-with-permit")
                        v -= 1
                if prim.value != v:
                    bad("sem:value-differs-from-true-count", {"reported": prim.value, "true": v, "after_op": i})
                if prim.max_value != (maxv if has_max else None):
                    bad("sem:max_value-changed", prim.max_value)
        else:
            tot = total
            held = set()
            for i, op in enumerate(ops):
                b = who[i]
                if op == 0:
                    try:
                        prim.release_on_behalf_of(objs[b])
                        ok = True
                    except RuntimeError:
                        ok = False
                    if ok != (b in held):
                        bad("lim:release-decision-wrong", {"held": sorted(held), "who": b, "accepted": ok})
                    held.discard(b)
                elif op == 1:
                    try:
                        prim.acquire_on_behalf_of_nowait(objs[b])
                        res = "ok"
                    except WouldBlock:
                        res = "wouldblock"
                    except RuntimeError:
                        res = "error"
                    want = "error" if b in held else ("ok" if len(held) < tot else "wouldblock")
                    if res != want:
                        bad("lim:acquire-decision-wrong", {"held": sorted(held), "total": tot, "who": b, "got": res, "want": want})
                    if res == "ok":
                        held.add(b)
                else:
                    prim.total_tokens = nvs[i]
                    tot = nvs[i]
                    cov.hit("adapter:lim-total-reassigned-after-binding", i > 0)
                if prim.total_tokens != tot or prim.borrowed_tokens != len(held) or prim.available_tokens != tot - len(held):
                    bad("lim:reported-counts-differ-from-true-counts", {"total": [prim.total_tokens, tot], "borrowed": [prim.borrowed_tokens, len(held)],
                                                                         "available": [prim.available_tokens, tot - len(held)], "after_op": i})
                st = prim.statistics()
                if st.total_tokens != tot or st.borrowed_tokens != len(held):
                    bad("lim:statistics-differ-from-true-counts", {"after_op": i})

    VLoop().run(main(), max_cycles=50)
    chk(not viol, viol[0][0] if viol else "", viol[:3])


MUST_REACH = MUST_REACH + ["adapter:sem-reject-max", "adapter:lim-total-reassigned-after-binding"]


def units(tier):
    us = []
    for kind in ("sem", "lim"):
        us.append({"name": "adapter %s (created outside the loop), 3 operations" % kind, "fn": adapter_step, "params": {"kind": kind}, "budget_s": 120})
    for nq in range(0, 4):
        us.append({"name": "sem nq=%d" % nq, "fn": sem_step, "params": {"nq": nq}, "budget_s": 60, "certify": nq <= 1})
    maxb = 3 if tier == "quick" else 4
    for op in ("set", "acq", "rel"):
        for nb in range(0, maxb + 1):
            for nq in range(0, 4):
                us.append({"name": "lim %s nb=%d nq=%d" % (op, nb, nq), "fn": lim_step,
                           "params": {"nb": nb, "nq": nq, "op": op}, "budget_s": 60})
    return us
