"""C13: memory object streams -- closing wakes everyone, errors tell the truth (Layer B, mem_scn.scn)."""
from __future__ import annotations

from symx.harness import mem_scn
from symx.vloop import STUBS as LOOP_STUBS

NAME = "c13_mem_close"
STUBS = LOOP_STUBS
ASSUMPTIONS = ["parties as described in mem_scn: every party owns one clone and closes it in `finally`; the originals are closed by main right after cloning, "
               "so the true number of open clones is known to the harness at every instant"]
OUTSIDE = ["more than 4 parties", "uvloop, trio"]
MUST_REACH = ["delivered", "end-of-stream", "blocked-receiver-woken-by-last-sender-close", "blocked-sender-woken-by-last-receiver-close",
              "broken", "closed-send-rejected", "closed-receive-rejected", "cancelled-party", "close-while-own-send-parked", "close-while-own-receive-blocked"]


def units(tier):
    quick = tier == "quick"
    us = []
    B = 240 if quick else 1500

    def add(parties, buf, **p):
        p.setdefault("T", 1)
        p.setdefault("J", 2)
        name = "%s buf=%s %s" % ("+".join(parties), buf, " ".join("%s=%s" % kv for kv in sorted(p.items()) if kv[0] not in ("T", "J")))
        us.append({"name": name, "fn": mem_scn.scn, "params": dict(parties=list(parties), buf=buf, **p), "budget_s": B})

    add(["S1", "L"], "sym")
    add(["S2", "L"], "sym", cancel=0)
    add(["S2", "L", "L"], "sym")
    add(["S2", "L", "L"], 0, cancel=1)
    add(["S1", "S1", "L"], "sym")
    add(["S1", "S1", "L"], 0, cancel=0, native=True)
    add(["S2", "R1"], "sym")           # receiver leaves early: BrokenResourceError
    add(["S2", "S1", "R1"], 0)         # two blocked senders woken by the last receiver close
    add(["S2", "R1", "R1"], 1, cancel=1)
    add(["X", "L"], 0)
    add(["X", "S1", "L"], 1)
    add(["S1", "Y"], "sym")
    add(["S2", "Y", "R1"], 0)
    add(["S1", "R2", "R2"], 0)         # two blocked receivers woken by the last sender close
    add(["s2", "L"], "sym")
    # a clone closed by another task while its owner is parked in send()/receive()
    add(["S2", "L", "L"], 0, cancel=1, behind_shield=True)   # the cancelled scope lies behind a shield: the receiver stays a live waiter
    add(["S1", "S1", "L"], 1, cancel=2, behind_shield=True)
    add(["S1", "R1"], 0, close=0)
    add(["S2", "L"], "sym", close=0)
    add(["S1", "S1", "L"], 0, close=1)
    add(["S2", "R2"], 0, close=1)
    add(["S1", "R1", "R1"], 0, close=2)
    add(["S2", "r2"], "sym")
    if not quick:
        import itertools as _it

        progs = ["S1", "S2", "s2", "L", "R1", "R2", "X", "Y"]
        for combo in _it.combinations_with_replacement(progs, 3):
            if not any(p[0] in "SsX" for p in combo) or not any(p[0] in "LRrY" for p in combo):
                continue
            add(list(combo), "sym")
            for c in range(3):
                if combo[c][0] in "SLR":
                    add(list(combo), 0, close=c)
                    add(list(combo), 1, cancel=c)
        add(["S2", "S2", "L", "L"], "sym")
        add(["S2", "S1", "L", "R1"], 0, cancel=2)
        add(["S2", "L", "L"], 0, cancel=1, native=True)
        add(["S2", "L"], "sym", cancel=0, eager=True)
        add(["S2", "S1", "R1"], 0, T=2)
        add(["X", "S2", "L", "Y"], 1)
    return us


# ---- Layer A: one synchronous step on an arbitrary stream state (clone counters UNBOUNDED symbolic ints) -----
def mem_close_step(sym, cov, op, nbuf, nws, nwr):
    """state: open_send/receive_channels = (this handle open ? 1 : 0) + a symbolic number of other open clones;
    nbuf buffered items, nws parked senders, nwr blocked receivers (R: receivers waiting => buffer empty and no
    parked sender; parked senders => buffer full).  One operation on one handle; counters and error classes must
    follow the statement."""
    import math

    import anyio
    from anyio import BrokenResourceError, ClosedResourceError, EndOfStream, WouldBlock
    from anyio.streams.memory import MemoryObjectReceiveStream, MemoryObjectSendStream, _MemoryObjectStreamState
    from symx.core import chk
    from symx.vloop import VLoop
    from asyncio import events

    loop = VLoop()
    events._set_running_loop(loop)
    try:
        other_tx = sym.int("other_send_clones", 0, 1 << 30)
        other_rx = sym.int("other_receive_clones", 0, 1 << 30)
        mine_closed = sym.bool("this_handle_closed")
        sym.assume(nwr == 0 or (nbuf == 0 and nws == 0))
        maxbuf = nbuf if nws > 0 else sym.int("max_buffer_size", nbuf, nbuf + 2)
        st = _MemoryObjectStreamState(max_buffer_size=maxbuf)
        side = "tx" if op in ("tx.close", "tx.clone", "send_nowait") else "rx"
        h = MemoryObjectSendStream(st) if side == "tx" else MemoryObjectReceiveStream(st)
        if mine_closed:
            h._closed = True
        mine_open = 0 if mine_closed else 1
        st.open_send_channels = other_tx + (mine_open if side == "tx" else 0)
        st.open_receive_channels = other_rx + (mine_open if side == "rx" else 0)
        for i in range(nbuf):
            st.buffer.append(("buf", i))
        s_evs, r_evs = [], []
        for i in range(nws):
            e = anyio.Event()
            st.waiting_senders[e] = ("parked", i)
            s_evs.append(e)

        pcs = [sym.bool("receiver%d_pending_cancellation" % i) if op == "send_nowait" else False for i in range(nwr)]

        class _TI:  # receiver task info stand-in with a symbolic "has a pending cancellation" flag
            def __init__(self, flag):
                self.flag = flag

            def has_pending_cancellation(self):
                return self.flag

        from anyio.streams.memory import _MemoryObjectItemReceiver

        recvs = []
        for i in range(nwr):
            e = anyio.Event()
            r = _MemoryObjectItemReceiver.__new__(_MemoryObjectItemReceiver)
            r.task_info = _TI(pcs[i])
            st.waiting_receivers[e] = r
            r_evs.append(e)
            recvs.append(r)
        tx0, rx0 = st.open_send_channels, st.open_receive_channels
        raised = None
        result = None
        try:
            if op in ("tx.close", "rx.close"):
                h.close()
            elif op in ("tx.clone", "rx.clone"):
                result = h.clone()
            elif op == "send_nowait":
                h.send_nowait("new")
            else:
                result = h.receive_nowait()
        except (ClosedResourceError, BrokenResourceError, EndOfStream, WouldBlock) as e:
            raised = e
        stat = st.statistics()
        chk(stat.open_send_streams == st.open_send_channels and stat.open_receive_streams == st.open_receive_channels, "statistics-open-counts")
        if op in ("tx.close", "rx.close"):
            chk(raised is None, "close-raised", repr(raised))
            want_tx = tx0 - (1 if (side == "tx" and not mine_closed) else 0)
            want_rx = rx0 - (1 if (side == "rx" and not mine_closed) else 0)
            chk(st.open_send_channels == want_tx and st.open_receive_channels == want_rx, "clone-counter-wrong-after-close",
                {"before": [tx0, rx0], "after": [st.open_send_channels, st.open_receive_channels], "already_closed": mine_closed})
            if side == "tx" and not mine_closed and want_tx == 0:
                chk(all(e.is_set() for e in r_evs), "last-send-clone-closed-but-receiver-not-woken")
                cov.hit("A:last-send-clone-wakes-receivers", nwr > 0)
            elif side == "tx":
                chk(not any(e.is_set() for e in r_evs), "receiver-woken-although-send-side-still-open")
            if side == "rx" and not mine_closed and want_rx == 0:
                chk(all(e.is_set() for e in s_evs), "last-receive-clone-closed-but-sender-not-woken")
                cov.hit("A:last-receive-clone-wakes-senders", nws > 0)
            elif side == "rx":
                chk(not any(e.is_set() for e in s_evs), "sender-woken-although-receive-side-still-open")
        elif op in ("tx.clone", "rx.clone"):
            if mine_closed:
                chk(isinstance(raised, ClosedResourceError), "clone-of-closed-handle-accepted", repr(raised))
                chk((st.open_send_channels, st.open_receive_channels) == (tx0, rx0), "counter-changed-by-refused-clone")
            else:
                chk(raised is None, "clone-refused", repr(raised))
                chk(st.open_send_channels == tx0 + (1 if side == "tx" else 0) and st.open_receive_channels == rx0 + (1 if side == "rx" else 0), "clone-counter-wrong-after-clone")
                result._closed = True  # silence the unclosed-stream warning of the throw-away clone
        elif op == "send_nowait":
            if mine_closed:
                chk(isinstance(raised, ClosedResourceError), "send-on-closed-handle-not-rejected", repr(raised))
            elif rx0 == 0:
                chk(isinstance(raised, BrokenResourceError), "send-without-receivers-not-broken", repr(raised))
                cov.hit("A:broken")
            else:
                chk(not isinstance(raised, (BrokenResourceError, ClosedResourceError)), "send-broken-or-closed-although-open", repr(raised))
                live = [i for i in range(nwr) if not pcs[i]]
                if live:
                    k = live[0]
                    chk(raised is None and r_evs[k].is_set() and recvs[k].item == "new", "item-not-handed-to-first-live-waiting-receiver", {"first_live": k})
                    chk(all(not hasattr(recvs[i], "item") for i in range(nwr) if i != k), "item-handed-to-more-than-one-receiver")
                    cov.hit("A:receiver-with-pending-cancellation-skipped", k > 0)
                elif nbuf < maxbuf:
                    chk(raised is None and len(st.buffer) == nbuf + 1, "item-not-buffered-although-room")
                else:
                    chk(isinstance(raised, WouldBlock), "send_nowait-did-not-block-on-full-buffer", repr(raised))
            chk(len(st.buffer) <= maxbuf, "buffer-over-max")
        else:
            if mine_closed:
                chk(isinstance(raised, ClosedResourceError), "receive-on-closed-handle-not-rejected", repr(raised))
            elif nbuf > 0 or nws > 0:
                chk(raised is None, "receive-failed-although-item-available", repr(raised))
                chk(result == (("buf", 0) if nbuf > 0 else ("parked", 0)), "receive-wrong-item", repr(result))
                if nws > 0:
                    chk(s_evs[0].is_set(), "parked-sender-not-released")
            elif tx0 == 0:
                chk(isinstance(raised, EndOfStream), "no-end-of-stream-although-send-side-closed", repr(raised))
                cov.hit("A:end-of-stream")
            else:
                chk(isinstance(raised, WouldBlock), "receive_nowait-wrong-error", repr(raised))
            chk(not (isinstance(raised, EndOfStream) and (tx0 > 0 or nbuf > 0 or nws > 0)), "end-of-stream-with-open-senders-or-items")
        h._closed = True
    finally:
        events._set_running_loop(None)
        loop.close()


MUST_REACH = MUST_REACH + ["A:receiver-with-pending-cancellation-skipped", "A:last-send-clone-wakes-receivers", "A:last-receive-clone-wakes-senders", "A:broken", "A:end-of-stream"]
_units_b = units


def units(tier):  # noqa: F811
    us = _units_b(tier)
    for op in ("tx.close", "rx.close", "tx.clone", "rx.clone", "send_nowait", "receive_nowait"):
        for (nbuf, nws, nwr) in ((0, 0, 0), (1, 0, 0), (2, 0, 0), (1, 1, 0), (0, 1, 0), (0, 2, 0), (0, 0, 1), (0, 0, 2)):
            us.append({"name": "A %s buf=%d parked=%d waiting=%d" % (op, nbuf, nws, nwr), "fn": mem_close_step,
                       "params": {"op": op, "nbuf": nbuf, "nws": nws, "nwr": nwr}, "budget_s": 60})
    return us
