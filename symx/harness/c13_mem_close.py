"""C13: memory object streams -- closing wakes everyone, errors tell the truth (Layer B, mem_scn.scn)."""
from __future__ import annotations

from symx.harness import mem_scn
from symx.vloop import STUBS as LOOP_STUBS

NAME = "c13_mem_close"
STUBS = LOOP_STUBS
ASSUMPTIONS = ["parties as described in mem_scn: every party owns one clone and closes it in `finally`; the originals are closed by main right after cloning, "
               "so the true number of open clones is known to the harness at every instant"]
OUTSIDE = ["more than 4 parties", "uvloop, trio"]
MUST_REACH = ["delivered", "end-of-stream", "blocked-receiver-woken-by-last-sender-close", "blocked-sender-woken-by-last-receiver-close",
              "broken", "closed-send-rejected", "closed-receive-rejected", "cancelled-party", "close-while-own-send-parked", "close-while-own-receive-blocked"]


def units(tier):
    quick = tier == "quick"
    us = []
    B = 240 if quick else 1500

    def add(parties, buf, **p):
        p.setdefault("T", 1)
        p.setdefault("J", 2)
        name = "%s buf=%s %s" % ("+".join(parties), buf, " ".join("%s=%s" % kv for kv in sorted(p.items()) if kv[0] not in ("T", "J")))
        us.append({"name": name, "fn": mem_scn.scn, "params": dict(parties=list(parties), buf=buf, **p), "budget_s": B})

    add(["S1", "L"], "sym")
    add(["S2", "L"], "sym", cancel=0)
    add(["S2", "L", "L"], "sym")
    add(["S2", "L", "L"], 0, cancel=1)
    add(["S1", "S1", "L"], "sym")
    add(["S1", "S1", "L"], 0, cancel=0, native=True)
    add(["S2", "R1"], "sym")           # receiver leaves early: BrokenResourceError
    add(["S2", "S1", "R1"], 0)         # two blocked senders woken by the last receiver close
    add(["S2", "R1", "R1"], 1, cancel=1)
    add(["X", "L"], 0)
    add(["X", "S1", "L"], 1)
    add(["S1", "Y"], "sym")
    add(["S2", "Y", "R1"], 0)
    add(["S1", "R2", "R2"], 0)         # two blocked receivers woken by the last sender close
    add(["s2", "L"], "sym")
    # a clone closed by another task while its owner is parked in send()/receive()
    add(["S1", "R1"], 0, close=0)
    add(["S2", "L"], "sym", close=0)
    add(["S1", "S1", "L"], 0, close=1)
    add(["S2", "R2"], 0, close=1)
    add(["S1", "R1", "R1"], 0, close=2)
    add(["S2", "r2"], "sym")
    if not quick:
        add(["S2", "S2", "L", "L"], "sym")
        add(["S2", "S1", "L", "R1"], 0, cancel=2)
        add(["S2", "L", "L"], 0, cancel=1, native=True)
        add(["S2", "L"], "sym", cancel=0, eager=True)
        add(["S2", "S1", "R1"], 0, T=2)
        add(["X", "S2", "L", "Y"], 1)
    return us
