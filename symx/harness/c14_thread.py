"""C14 (partial): to_thread.run_sync -- loop side, the OS thread replaced by an environment stub.

Real OS threads cannot be executed symbolically.  The worker thread talks to the loop only through
queue.put_nowait(item) (loop -> thread) and loop.call_soon_threadsafe(_report_result, ...) (thread -> loop),
so WorkerThread.start() becomes a no-op, the worker's queue becomes a recording fake, and the environment
action "the thread of caller k gets to run" at a symbolic instant executes the REAL WorkerThread.run() body
for the queued item synchronously, which reports through the real _report_result.
Real code executed: AsyncIOBackend.run_sync_in_worker_thread, WorkerThread.__init__/run/_report_result/stop,
claim_worker_thread, CapacityLimiter, CancelScope, from_thread.check_cancelled / AsyncIOBackend.check_cancelled.
"""
from __future__ import annotations

import asyncio
import contextvars

from symx.core import Violation, chk
from symx.vloop import STUBS as LOOP_STUBS
from symx.vloop import CycleBudget, Deadlock, VLoop

NAME = "c14_thread"
STUBS = LOOP_STUBS + [
    "WorkerThread.start(): no-op (no OS thread); WorkerThread.queue: recording fake whose get() returns the queued item or the shutdown sentinel",
    "environment action 'thread of caller k runs' at a symbolic instant (tick, cycle offset): WorkerThread.run() executed synchronously in the loop thread for the queued item",
    "loop.call_soon_threadsafe == call_soon on the virtual loop (no self-pipe)",
    "thread-local storage of the simulated worker threads (anyio's threadlocals) is swapped in and out by the harness (callback units only)",
    "concurrent.futures.Future.result() (callback units only): instead of blocking the 'thread', keeps the virtual loop cycling until the future is done (VLoop.pump_until)",
]
ASSUMPTIONS = ["the thread function runs atomically at the instant chosen by the environment (its internal duration is not modelled)",
               "limiter total symbolic in [1, ncallers]"]
OUTSIDE = ["true thread interleavings / GIL-level races on idle_workers", "callbacks into the loop other than: one from_thread.run / run_sync per thread function, whose coroutine has no unshielded checkpoint; threads blocked in a callback finish in LIFO order",
           "idle worker pruning timing (MAX_IDLE_TIME)", "uvloop, trio"]
MUST_REACH = ["thread:returned-value", "thread:raised", "thread:caller-cancelled-while-running-not-abandoned", "thread:abandoned", "thread:limiter-made-caller-wait",
              "thread:check_cancelled-raised", "thread:cancelled-before-handoff", "thread:called-back-into-the-loop", "thread:called-back-while-caller-cancelled"]


class E(Exception):
    pass


class FakeQueue:
    def __init__(self, log):
        self.items = []
        self.log = log

    def put_nowait(self, item):
        self.items.append(item)
        if item is not None:
            self.log.append(item)

    def get(self):
        if self.items:
            return self.items.pop(0)
        return None  # nothing queued: behave like the shutdown sentinel so that run() returns

    def task_done(self):
        pass


cv = contextvars.ContextVar("c14", default=-1)


def scn(sym, cov, n, funcs, cancel=None, abandon=False, eager=False, T=1, J=2, precancel=False, RJ=1, shielded_caller=False, cancel_outside_shield=False, scope_shield=False):
    """funcs[k]: 'ret' | 'raise' | 'ctx' | 'chk' (calls from_thread.check_cancelled()) | 'retexc' (RETURNS an exception instance)
      | 'cbs' (calls back: from_thread.run_sync(sync function)) | 'cba' (from_thread.run(coroutine function without a checkpoint))
      | 'cbc' (from_thread.run(coroutine function doing a shielded clean-up sleep)) -- for these the "thread" blocks on a
        concurrent.futures.Future while the loop runs on: the environment action runs between two loop cycles and keeps the loop
        cycling (VLoop.pump_until) until the future is done
    shielded_caller: the call is made directly inside a shielded scope, and it is THAT scope which gets cancelled
    scope_shield: the callers' own scopes (the ones that get cancelled) are themselves shielded, e.g. move_on_after(..., shield=True)
    cancel_outside_shield: (with shielded_caller) the scope AROUND the shielded one is cancelled instead: the shield holds"""
    import anyio
    import anyio._backends._asyncio as B
    from anyio import CancelScope, from_thread, to_thread

    loop = VLoop(eager=eager)
    total = sym.int("total", 1, n)
    s = [sym.int("s%d" % k, 0, T) for k in range(n)]
    rt = [sym.int("rt%d" % k, 0, 2 * T + 1) for k in range(n)]  # when caller k's thread gets to run
    rj = [sym.int("rj%d" % k, 0, RJ) if RJ else 0 for k in range(n)]
    v = [sym.int("v%d" % k, 0, 1000) for k in range(n)]
    if cancel is not None and not precancel:
        ct = sym.int("ct", 0, 2 * T + 1)
        cj = sym.int("cj", 0, J)
    handed: list = []  # items put on any worker queue
    viol: list = []
    res: dict = {}
    st = {"executing": 0, "workers": [], "ran": {}, "abandoned": set()}
    excs = {}
    saved = (B.WorkerThread.start, B.WorkerThread.__init__)

    def bad(c, d=None):
        viol.append((c, d))

    def fake_start(self):
        st["workers"].append(self)

    orig_init = B.WorkerThread.__init__

    def patched_init(self, *a, **k):
        orig_init(self, *a, **k)
        self.queue = FakeQueue(handed)

    B.WorkerThread.start = fake_start
    B.WorkerThread.__init__ = patched_init

    def make_func(k):
        def f():
            st["ran"][k] = st["ran"].get(k, 0) + 1
            if funcs[k] == "raise":
                excs[k] = E(k)
                raise excs[k]
            if funcs[k] == "retexc":
                excs[k] = E(k)
                return excs[k]  # a value that happens to be an exception object
            if funcs[k] == "ctx":
                return ("ctx", cv.get())
            if funcs[k] == "cbs":
                def in_loop():
                    st["cb_ran_%d" % k] = st.get("cb_ran_%d" % k, 0) + 1
                    return v[k] + 1

                return ("cb", from_thread.run_sync(in_loop))
            if funcs[k] in ("cba", "cbc"):
                async def in_loop_async():
                    st["cb_ran_%d" % k] = st.get("cb_ran_%d" % k, 0) + 1
                    if funcs[k] == "cbc":
                        with CancelScope(shield=True):
                            await anyio.sleep(1)
                    return v[k] + 1

                return ("cb", from_thread.run(in_loop_async))
            if funcs[k] == "chk":
                try:
                    from_thread.check_cancelled()
                    return ("chk", False)
                except asyncio.CancelledError:
                    st["chk_raised_%d" % k] = True
                    return ("chk", True)
            return v[k]

        f.k = k
        return f

    callbacks = any(f in ("cbs", "cba", "cbc") for f in funcs)
    import concurrent.futures as _cf

    orig_result = _cf.Future.result

    def pumping_result(self, timeout=None):
        # the "thread" blocks on this future; meanwhile the event loop (the only real thread here) keeps running
        if not self.done():
            st["blocked_in_callback"] = st.get("blocked_in_callback", 0) + 1
            mine = tls_swap(tls_stack[-1]) if tls_stack else None  # the loop thread runs with ITS thread-locals
            try:
                loop.pump_until(self.done)
            finally:
                if mine is not None:
                    tls_stack[-1] = tls_swap(mine)
        return orig_result(self, 0)

    from anyio._core._eventloop import threadlocals as _tl

    tls_stack: list = []

    def tls_swap(new):
        old = dict(_tl.__dict__)
        _tl.__dict__.clear()
        _tl.__dict__.update(new)
        return old

    if callbacks:
        _cf.Future.result = pumping_result

    fns = [make_func(k) for k in range(n)]

    async def main():
        lim = anyio.CapacityLimiter(total)
        scopes = [CancelScope(shield=scope_shield) for _ in range(n)]
        inners: dict = {}

        def in_flight():
            # handed to a thread and not yet executed, callers that were abandoned excluded
            return [it for w in st["workers"] for it in w.queue.items if it is not None and it[1].k not in st["abandoned"]]

        def run_thread(k, tries=0):
            for w in st["workers"]:
                if any(it is not None and it[1].k == k for it in w.queue.items):
                    if len(in_flight()) > lim.total_tokens:
                        bad("more-running-calls-than-tokens", {"in_flight": len(in_flight()), "total": lim.total_tokens})
                    if k in inners:  # the caller sits in a shielded scope: only that scope's own cancellation counts
                        st["scope_eff_%d" % k] = inners[k].cancel_called
                    else:
                            st["scope_eff_%d" % k] = scopes[k].cancel_called
                    # thread-local storage is per thread: the simulated worker starts with an empty one, the loop thread's own
                    # is put back whenever the worker blocks (pumping_result) or ends
                    tls_stack.append(tls_swap({}))
                    try:
                        w.run()  # the REAL WorkerThread.run(): runs the function, reports via call_soon_threadsafe
                    finally:
                        tls_swap(tls_stack.pop())
                    return
            if k not in res and tries < 8:
                if callbacks:
                    loop.call_later(1, lambda: loop.between.append((run_thread, (k, tries + 1))))
                else:
                    loop.call_later(1, run_thread, k, tries + 1)

        async def caller(k):
            with scopes[k]:
                if precancel and k == cancel:
                    scopes[k].cancel()
                try:
                    await anyio.sleep(s[k])
                except asyncio.CancelledError:
                    res[k] = {"out": "cancelled", "ran_at_cancel": 0, "before_call": True}
                    raise
                cv.set(100 + k)
                r = {"cancelled_before": scopes[k].cancel_called, "t0": (loop.time(), loop.cycles), "waited": lim.available_tokens <= 0}
                try:
                    if shielded_caller:
                        with CancelScope(shield=True) as inner:
                            inners[k] = inner
                            try:
                                r["value"] = await to_thread.run_sync(fns[k], abandon_on_cancel=abandon, limiter=lim)
                            except asyncio.CancelledError:
                                if not inner.cancel_called:
                                    bad("cancellation-delivered-inside-shielded-scope", k)
                                raise
                        r["inner_caught"] = inner.cancelled_caught
                    else:
                        r["value"] = await to_thread.run_sync(fns[k], abandon_on_cancel=abandon, limiter=lim)
                    if "value" in r:
                        r["out"] = "returned"
                    else:
                        # the shielded scope absorbed its own cancellation raised by run_sync
                        r["out"] = "cancelled"
                        r["ran_at_cancel"] = st["ran"].get(k, 0)
                        if abandon:
                            st["abandoned"].add(k)
                        res[k] = r
                        return
                except E as e:
                    r["out"] = "raised"
                    r["exc"] = e
                except asyncio.CancelledError:
                    r["out"] = "cancelled"
                    r["ran_at_cancel"] = st["ran"].get(k, 0)
                    if abandon:
                        st["abandoned"].add(k)
                    res[k] = r
                    raise
                r["cancel_called_at_return"] = scopes[k].cancel_called
                res[k] = r
                # a pending cancellation is delivered at the next checkpoint
                try:
                    await anyio.sleep(0)
                    r["next_checkpoint"] = "passed"
                except asyncio.CancelledError:
                    r["next_checkpoint"] = "cancelled"
                    raise

        def do_cancel():
            if shielded_caller and not cancel_outside_shield:
                if cancel in inners:
                    inners[cancel].cancel()
            else:
                scopes[cancel].cancel()

        if cancel is not None and not precancel:
            loop.env_at(ct, cj, do_cancel)
        for k in range(n):
            (loop.env_between if callbacks else loop.env_at)(rt[k], rj[k], run_thread, k)
        async with anyio.create_task_group() as tg:
            for k in range(n):
                tg.start_soon(caller, k)
        # let abandoned threads finish, then look at the limiter
        for k in range(n):
            run_thread(k, 99)
        await anyio.sleep(1)
        st["borrowed_end"] = lim.borrowed_tokens
        st["waiting_end"] = lim.statistics().tasks_waiting

    try:
        loop.run(main(), max_cycles=600)
    except Deadlock:
        raise Violation("liveness:Deadlock", {"res": {k: r.get("out") for k, r in res.items()}})
    except CycleBudget:
        raise Violation("liveness:CycleBudget")
    finally:
        B.WorkerThread.start, B.WorkerThread.__init__ = saved
        _cf.Future.result = orig_result
    chk(not viol, viol[0][0] if viol else "", viol[:3])
    chk(st["borrowed_end"] == 0 and st["waiting_end"] == 0, "limiter-token-not-given-back", {"borrowed": st["borrowed_end"], "waiting": st["waiting_end"], "outcomes": {k: r.get("out") for k, r in res.items()}})
    for k in range(n):
        r = res.get(k)
        chk(r is not None, "caller-never-finished", k)
        ran = st["ran"].get(k, 0)
        chk(ran <= 1, "function-ran-more-than-once", {"caller": k, "ran": ran})
        if r["out"] == "returned":
            chk(ran == 1, "returned-without-running-the-function", k)
            if funcs[k] == "ret":
                chk(r["value"] == v[k], "wrong-return-value", {"got": r["value"], "want": v[k]})
            elif funcs[k] == "retexc":
                chk(r["value"] is excs.get(k), "returned-exception-object-not-returned-as-value", repr(r["value"]))
            elif funcs[k] == "ctx":
                chk(r["value"] == ("ctx", 100 + k), "context-variable-not-visible-in-thread", r["value"])
            elif funcs[k] in ("cbs", "cba", "cbc"):
                chk(r["value"] == ("cb", v[k] + 1), "callback-into-the-loop-returned-wrong-value", {"got": r["value"], "want": v[k] + 1})
                chk(st.get("cb_ran_%d" % k) == 1, "callback-into-the-loop-did-not-run-exactly-once", st.get("cb_ran_%d" % k))
                cov.hit("thread:called-back-into-the-loop")
                cov.hit("thread:called-back-while-caller-cancelled", k == cancel and bool(r.get("cancel_called_at_return")))
            elif funcs[k] == "chk":
                want = bool(st.get("scope_eff_%d" % k))
                chk(r["value"] == ("chk", want), "check_cancelled-wrong", {"raised": r["value"][1], "scope_cancelled": want})
                cov.hit("thread:check_cancelled-raised", r["value"][1])
            cov.hit("thread:returned-value")
            if r.get("cancel_called_at_return") and not shielded_caller:
                chk(not abandon or True, "")
                chk(r.get("next_checkpoint") == "cancelled", "pending-cancellation-not-delivered-at-next-checkpoint", k)
                cov.hit("thread:caller-cancelled-while-running-not-abandoned", not abandon)
        elif r["out"] == "raised":
            chk(funcs[k] == "raise", "value-raised-instead-of-returned", {"caller": k, "func": funcs[k]})
            chk(r["exc"] is excs.get(k), "wrong-exception-object", k)
            cov.hit("thread:raised")
        else:
            chk(k == cancel, "uncancelled-caller-got-cancelled", k)
            if not abandon:
                # without abandon_on_cancel the cancellation may only take effect when the function is not running:
                # i.e. the call was cancelled before the hand-off (function never ran) ...
                chk(r["ran_at_cancel"] == 0 and ran == 0, "cancellation-took-effect-while-function-running", {"caller": k, "ran": ran})
                cov.hit("thread:cancelled-before-handoff")
            else:
                cov.hit("thread:abandoned", True)
        cov.hit("thread:limiter-made-caller-wait", r.get("waited", False))


def units(tier):
    quick = tier == "quick"
    us = []
    B_ = 240 if quick else 3000

    def add(name, funcs, **p):
        p.setdefault("T", 1)
        p.setdefault("J", 1)
        p["n"] = len(funcs)
        p["funcs"] = list(funcs)
        us.append({"name": name, "fn": scn, "params": p, "budget_s": B_})

    add("1 ret", ["ret"])
    add("1 ret cancel", ["ret"], cancel=0, J=2)
    add("1 ret cancel abandon", ["ret"], cancel=0, abandon=True, J=2)
    add("1 ret precancel", ["ret"], cancel=0, precancel=True)
    add("1 raise cancel", ["raise"], cancel=0)
    add("1 chk cancel", ["chk"], cancel=0, J=2)
    add("1 ctx", ["ctx"])
    add("1 retexc", ["retexc"])
    add("1 retexc cancel", ["retexc"], cancel=0)
    add("1 chk in shielded scope, that scope cancelled", ["chk"], cancel=0, shielded_caller=True, J=2)
    add("1 chk in shielded scope, enclosing scope cancelled (shield holds)", ["chk"], cancel=0, shielded_caller=True, cancel_outside_shield=True, J=2)
    add("1 cbs (from_thread.run_sync) cancel", ["cbs"], cancel=0, J=2)
    add("1 cba (from_thread.run, no checkpoint) cancel", ["cba"], cancel=0, J=2)
    add("1 cbc (from_thread.run, shielded clean-up) cancel", ["cbc"], cancel=0, J=1)
    add("1 cba precancel", ["cba"], cancel=0, precancel=True)
    add("2 cba+ret cancel0", ["cba", "ret"], cancel=0, RJ=0)
    add("1 ret cancel, caller's scope itself shielded", ["ret"], cancel=0, J=2, scope_shield=True)
    add("1 chk cancel, caller's scope itself shielded", ["chk"], cancel=0, J=1, scope_shield=True)
    add("2 ret+raise cancel0", ["ret", "raise"], cancel=0, RJ=0)
    add("2 ret+ret cancel1 abandon", ["ret", "ret"], cancel=1, abandon=True, RJ=0)
    add("2 ctx+chk cancel1", ["ctx", "chk"], cancel=1, RJ=0)
    if not quick:
        add("3 ret+raise+ret cancel1", ["ret", "raise", "ret"], cancel=1, RJ=0, J=0)
        add("3 ret x3 cancel0 abandon", ["ret", "ret", "ret"], cancel=0, abandon=True, RJ=0, J=0)
        add("2 ret+chk cancel1 eager", ["ret", "chk"], cancel=1, eager=True)
        add("2 ret+ret cancel0 T=2", ["ret", "ret"], cancel=0, T=2, J=1, RJ=0)
        add("2 ret+chk cancel1 RJ=1", ["ret", "chk"], cancel=1, RJ=1, J=2)
        add("2 retexc+raise cancel0 abandon", ["retexc", "raise"], cancel=0, abandon=True, RJ=1, J=2)
    return us
