"""Shared Layer-B scenario for memory object streams (C12 delivery, C13 closing).

Parties (one task each, each with its OWN clone of its end, closed in `finally`):
  'S<k>'  send k items with blocking send()          's<k>'  send k items with send_nowait() (WouldBlock recorded)
  'R<k>'  receive k items with blocking receive()    'r<k>'  k receive_nowait() calls
  'L'     receive until EndOfStream (the documented `async for` idiom)
  'X'     sender that closes its clone and then tries to send (ClosedResourceError expected)
  'Y'     receiver that closes its clone and then tries to receive
Symbolic: start delay s_i and inter-operation gap g_i per party (ticks), max_buffer_size, the cancel
instant (tick, cycle offset) of one party's scope (or native Task.cancel()).
The oracle is evaluated on the observation log only.
"""
from __future__ import annotations

import asyncio
import math

from symx.core import Violation, chk
from symx.vloop import CycleBudget, Deadlock, VLoop


def scn(sym, cov, parties, buf, cancel=None, native=False, eager=False, T=1, J=2, keep_rx=False, cancel_by=None, close=None, behind_shield=False, share_rx=False):
    """parties: list of program strings; buf: int | 'inf' | 'sym' (symbolic 0..2)
    share_rx: all receiving parties use ONE receive stream object (no clones), one after the other or at the same time
    behind_shield: the cancel hits a scope AROUND a shielded scope around the party's own scope (shielded clean-up code using a
        stream): the shield holds, the party must be served exactly as if nothing had been cancelled
    keep_rx: main keeps one receive clone open until every party finished, then drains the buffer"""
    import anyio
    from anyio import (BrokenResourceError, CancelScope, ClosedResourceError, EndOfStream, WouldBlock,
                       create_memory_object_stream)

    n = len(parties)
    loop = VLoop(eager=eager)
    s = [sym.int("s%d" % i, 0, T) for i in range(n)]
    g = [sym.int("g%d" % i, 0, T) for i in range(n)]
    if buf == "sym":
        maxbuf = sym.int("buf", 0, 2)
    elif buf == "inf":
        maxbuf = math.inf
    else:
        maxbuf = buf
    if cancel is not None and cancel_by is None:
        ct = sym.int("ct", 0, 2 * T + 2)
        cj = sym.int("cj", 0, J)
    if close is not None:
        # the environment (another task) closes party `close`'s clone at a symbolic instant
        xt = sym.int("xt", 0, 2 * T + 2)
        xj = sym.int("xj", 0, J)
    if cancel_by is not None:
        # the cancel is issued by party `cancel_by` itself, immediately before its operation number `cop`
        # (a sibling cancelling a peer and then sending/receiving in the same step)
        cop = sym.int("cop", 0, 1)

    viol: list = []
    sends: dict = {}  # item -> 'ok' | 'cancelled' | 'wouldblock' | 'broken' | 'closed'
    send_order: list = []  # items in the order their send call STARTED
    recv_log: list = []  # (party, item) in completion order
    rwait: list = []  # parties currently inside a blocking receive, in call order
    waits: list = []  # one record per blocking receive call: party, outcome ('item' | 'cancelled' | 'eos' | 'closed' | None)
    wait_id: dict = {}
    swait: list = []  # items currently inside a blocking send, in call order
    overtaken: list = []  # (winner party, [parties ahead]) for receive
    enq_cycle: dict = {}  # item -> earliest loop cycle at which it can have been buffered / parked
    s_overtaken: list = []  # (item received, [items whose send was blocked earlier and are still blocked])
    ended: dict = {}  # party -> how it ended
    open_tx: set = set()
    open_rx: set = set()
    tasks: dict = {}
    state: dict = {}

    def bad(clause, detail=None):
        viol.append((clause, detail))

    async def main():
        tx0, rx0 = create_memory_object_stream(maxbuf)
        handles = {}
        shared_rx = rx0.clone() if share_rx else None
        if share_rx:
            open_rx.add("shared")
        for i, prog in enumerate(parties):
            if prog[0] in "SsX":
                handles[i] = tx0.clone()
                open_tx.add(i)
            elif share_rx:
                handles[i] = shared_rx
            else:
                handles[i] = rx0.clone()
                open_rx.add(i)
        tx0.close()
        if keep_rx:
            open_rx.add("main")
        else:
            rx0.close()

        def stats_ok(where):
            st = rx0.statistics()
            if st.open_send_streams != len(open_tx) or st.open_receive_streams != len(open_rx):
                bad("statistics-open-counts", {"where": where, "reported": [st.open_send_streams, st.open_receive_streams], "true": [len(open_tx), len(open_rx)]})
            if st.current_buffer_used > maxbuf:
                bad("buffer-over-max", {"used": st.current_buffer_used, "max": maxbuf})

        def outstanding():
            got = [it for (_p, it) in recv_log]
            return [it for it in send_order if sends.get(it) == "ok" and it not in got]

        def on_receive(i, item):
            if sends.get(item) not in ("ok", "cancelled", "pending"):
                bad("received-item-never-sent", item)
            if any(it == item for (_p, it) in recv_log):
                bad("item-delivered-twice", item)
            # per-sender order
            for (_p, it) in recv_log:
                if it // 10 == item // 10 and it > item:
                    bad("sender-order-violated", {"got": item, "after": it})
            ahead = [wait_id[a] for a in rwait[: rwait.index(i)]] if i in rwait else []
            overtaken.append((i, ahead))
            already = [it for (_p, it) in recv_log]
            # senders that were blocked earlier, are still inside send() and whose item has NOT been received yet
            # ("blocked earlier" = parked strictly earlier: a blocking send() parks, at the earliest, one loop cycle after it was
            # called -- its entry checkpoint -- while a send_nowait() is accepted in the cycle of the call; ties are not judged)
            blocked_before = [it for it in swait if it != item and it not in already and enq_cycle.get(it, 1 << 30) < enq_cycle.get(item, -1)] if item in send_order else []
            s_overtaken.append((item, blocked_before))
            recv_log.append((i, item))

        async def sender(i, prog, scope):
            tx = handles[i]
            k = int(prog[1:]) if len(prog) > 1 else 1
            try:
                with scope:
                    await anyio.sleep(s[i])
                    if prog[0] == "X":
                        tx.close()
                        open_tx.discard(i)
                        stats_ok("X-close")
                        try:
                            tx.send_nowait(i * 10)
                            bad("send-on-closed-handle-accepted")
                        except ClosedResourceError:
                            cov.hit("closed-send-rejected")
                        try:
                            extra = tx.clone()
                            extra.close()
                            bad("clone-of-closed-handle-accepted")
                        except ClosedResourceError:
                            pass
                        stats_ok("X-after-clone-attempt")
                        try:
                            await tx.send(i * 10)
                            bad("send-on-closed-handle-accepted")
                        except ClosedResourceError:
                            pass
                        return
                    for idx in range(k):
                        if idx:
                            await anyio.sleep(g[i])
                        item = i * 10 + idx
                        if cancel_by == i and idx == cop:
                            fire_cancel()
                        send_order.append(item)
                        enq_cycle[item] = loop.cycles + (0 if prog[0] == "s" else 1)
                        if prog[0] == "s":
                            try:
                                tx.send_nowait(item)
                                sends[item] = "ok"
                            except ClosedResourceError:
                                sends[item] = "closed"
                                if i in open_tx:
                                    bad("closed-error-on-open-handle", i)
                                ended[i] = "closed"
                                return
                            except WouldBlock:
                                sends[item] = "wouldblock"
                                st = tx.statistics()
                                if st.tasks_waiting_receive == 0 and st.current_buffer_used < maxbuf:
                                    bad("send_nowait-refused-with-room")
                            except BrokenResourceError:
                                sends[item] = "broken"
                                if open_rx:
                                    bad("broken-with-open-receivers", sorted(map(str, open_rx)))
                                ended[i] = "broken"
                                return
                        else:
                            sends[item] = "pending"
                            swait.append(item)
                            try:
                                await tx.send(item)
                                sends[item] = "ok"
                            except ClosedResourceError:
                                sends[item] = "closed"
                                if i in open_tx:
                                    bad("closed-error-on-open-handle", i)
                                cov.hit("closed-by-other-task")
                                ended[i] = "closed"
                                return
                            except BrokenResourceError:
                                sends[item] = "broken"
                                if open_rx:
                                    bad("broken-with-open-receivers", sorted(map(str, open_rx)))
                                cov.hit("blocked-sender-woken-by-last-receiver-close")
                                ended[i] = "broken"
                                return
                            except BaseException:
                                sends[item] = "cancelled"
                                raise
                            finally:
                                swait.remove(item)
                        stats_ok("send")
                    ended[i] = "done"
            finally:
                tx.close()
                open_tx.discard(i)
                stats_ok("tx-close")

        async def receiver(i, prog, scope):
            rx = handles[i]
            k = 99 if prog == "L" else (int(prog[1:]) if len(prog) > 1 else 1)
            try:
                with scope:
                    await anyio.sleep(s[i])
                    if prog[0] == "Y":
                        rx.close()
                        open_rx.discard(i)
                        stats_ok("Y-close")
                        try:
                            rx.receive_nowait()
                            bad("receive-on-closed-handle-accepted")
                        except ClosedResourceError:
                            cov.hit("closed-receive-rejected")
                        try:
                            extra = rx.clone()
                            state["leaked_clone"] = extra  # kept open on purpose: a mutant's clone keeps the side open
                            bad("clone-of-closed-handle-accepted")
                        except ClosedResourceError:
                            pass
                        stats_ok("Y-after-clone-attempt")
                        try:
                            await rx.receive()
                            bad("receive-on-closed-handle-accepted")
                        except ClosedResourceError:
                            pass
                        return
                    for idx in range(k):
                        if idx:
                            await anyio.sleep(g[i])
                        if cancel_by == i and idx == cop:
                            fire_cancel()
                        try:
                            if prog[0] == "r":
                                try:
                                    item = rx.receive_nowait()
                                except WouldBlock:
                                    if outstanding() and not swait:
                                        pass
                                    continue
                            else:
                                rwait.append(i)
                                wait_id[i] = len(waits)
                                waits.append({"party": i, "outcome": None})
                                state["rx_c0_%d" % i] = loop.cycles
                                try:
                                    item = await rx.receive()
                                finally:
                                    if i in rwait:
                                        # keep position information until on_receive ran
                                        pass
                        except ClosedResourceError:
                            if i in rwait:
                                rwait.remove(i)
                                waits[wait_id[i]]["outcome"] = "closed"
                            if i in open_rx:
                                bad("closed-error-on-open-handle", i)
                            cov.hit("closed-by-other-task")
                            ended[i] = "closed"
                            return
                        except EndOfStream:
                            if i in rwait:
                                rwait.remove(i)
                                waits[wait_id[i]]["outcome"] = "eos"
                            if open_tx:
                                bad("end-of-stream-with-open-senders", sorted(open_tx))
                            # an item already handed to another blocked receiver (in its slot, that task not yet
                            # resumed) is delivered, not "remaining": allow one such item per other blocked receiver
                            others = [r for r in rwait if r != i]
                            # (a send() call that is still in its entry checkpoint has no pending item yet, hence the
                            # number of parked senders is read from the public statistics)
                            parked = rx0.statistics().tasks_waiting_send
                            if len(outstanding()) > len(others) or parked:
                                bad("end-of-stream-with-items-remaining", {"outstanding": outstanding(), "parked_senders": parked, "in_send": list(swait), "other_blocked_receivers": others})
                            cov.hit("end-of-stream")
                            cov.hit("blocked-receiver-woken-by-last-sender-close", prog[0] != "r" and loop.cycles - state.get("rx_c0_%d" % i, loop.cycles) >= 2)
                            ended[i] = "eos"
                            return
                        except BaseException:
                            if i in rwait:
                                rwait.remove(i)
                                waits[wait_id[i]]["outcome"] = "cancelled"
                            raise
                        on_receive(i, item)
                        if i in rwait:
                            rwait.remove(i)
                            waits[wait_id[i]]["outcome"] = "item"
                        stats_ok("receive")
                    ended[i] = "done"
            finally:
                if not share_rx:
                    rx.close()
                    open_rx.discard(i)
                    stats_ok("rx-close")

        async def party(i, prog, scope):
            tasks[i] = asyncio.current_task()
            try:
                if prog[0] in "SsX":
                    await sender(i, prog, scope)
                else:
                    await receiver(i, prog, scope)
            except asyncio.CancelledError:
                if native and i == cancel and state.get("native_fired"):
                    asyncio.current_task().uncancel()
                    ended[i] = "cancelled"
                else:
                    raise
            if scopes[i].cancelled_caught:
                ended[i] = "cancelled"

        scopes = [CancelScope() for _ in range(n)]

        def fire_cancel():
            cov.hit("cancel-while-blocked-receive", cancel in rwait)
            cov.hit("cancel-while-blocked-send", any(it // 10 == cancel for it in swait))
            if native:
                t = tasks.get(cancel)
                if t is not None and not t.done():
                    state["native_fired"] = True
                    t.cancel()
            elif behind_shield:
                outer_scopes[cancel].cancel()
            else:
                scopes[cancel].cancel()

        outer_scopes = [CancelScope() for _ in range(n)]

        if cancel is not None and cancel_by is None:
            loop.env_at(ct, cj, fire_cancel)

        def fire_close():
            cov.hit("close-while-own-send-parked", any(it // 10 == close for it in swait))
            cov.hit("close-while-own-receive-blocked", close in rwait)
            handles[close].close()
            open_tx.discard(close)
            open_rx.discard(close)
            stats_ok("env-close")

        if close is not None:
            loop.env_at(xt, xj, fire_close)
        drained = []
        nrx = sum(1 for p in parties if p[0] not in "SsX")
        rx_done = anyio.Event()
        state["rx_left"] = nrx
        if nrx == 0:
            rx_done.set()

        async def party_wrap(i, prog, scope):
            try:
                if behind_shield and i == cancel:
                    with outer_scopes[i]:
                        with CancelScope(shield=True):
                            await party(i, prog, scope)
                    if ended.get(i) == "cancelled":
                        bad("party-behind-a-shield-was-cancelled", i)
                else:
                    await party(i, prog, scope)
            finally:
                if prog[0] not in "SsX":
                    state["rx_left"] -= 1
                    if state["rx_left"] == 0:
                        if share_rx:
                            shared_rx.close()
                            open_rx.discard("shared")
                            stats_ok("shared-rx-close")
                        rx_done.set()

        async def sink():
            # once every receiving party has ended, consume whatever is left so that blocked senders are
            # not stranded by main's own open receive clone, and so that conservation can be decided
            await rx_done.wait()
            while True:
                try:
                    drained.append(await rx0.receive())
                except EndOfStream:
                    break
            rx0.close()
            open_rx.discard("main")

        async with anyio.create_task_group() as tg:
            for i, prog in enumerate(parties):
                tg.start_soon(party_wrap, i, prog, scopes[i])
            if keep_rx:
                tg.start_soon(sink)
        state["drained"] = drained
        st = rx0.statistics()
        state["final"] = st

    try:
        loop.run(main(), max_cycles=400)
    except Deadlock:
        raise Violation("liveness:Deadlock", {"rwait": list(rwait), "swait": list(swait), "open_tx": sorted(open_tx), "open_rx": sorted(map(str, open_rx))})
    except CycleBudget:
        raise Violation("liveness:CycleBudget")
    import os
    if os.environ.get("SYMX_DEBUG"):
        print("DEBUG recv_log", recv_log, "send_order", send_order, "sends", sends, "overtaken", overtaken, "s_overtaken", s_overtaken, "ended", ended, "trace", state.get("trace"))
    chk(not viol, viol[0][0] if viol else "", viol)
    got = [it for (_p, it) in recv_log] + list(state["drained"])
    # exactly once: every item whose send completed is received, or was still buffered when the
    # receiving side was closed; nothing twice; nothing invented
    chk(len(set(got)) == len(got), "item-delivered-twice", got)
    for it in got:
        chk(sends.get(it) in ("ok", "cancelled"), "received-item-never-sent", it)
    if keep_rx:
        for it, stt in sends.items():
            if stt == "ok":
                chk(it in got, "completed-send-lost", {"item": it, "received": got})
    # drained items keep per-sender order too
    for a in range(len(got)):
        for b in range(a):
            chk(not (got[a] // 10 == got[b] // 10 and got[b] > got[a]), "sender-order-violated", got)
    # blocked receivers are served in the order in which they started waiting
    # (an earlier waiter that was handed its item before but has not resumed yet is still "ahead" in the log; what
    # must not happen is that a later waiter is served while an earlier, live one ends up with nothing)
    for (w, ahead) in overtaken:
        for a in ahead:
            chk(waits[a]["outcome"] in ("item", "cancelled"), "receiver-overtaken", {"served": w, "ahead_party": waits[a]["party"], "its_wait_ended": waits[a]["outcome"]})
    # blocked senders are served in the order in which they started waiting
    for (item, before) in s_overtaken:
        for it in before:
            chk(sends.get(it) in ("cancelled", "broken"), "sender-overtaken", {"received": item, "blocked-earlier": it, "state": sends.get(it)})
    fin = state["final"]
    chk(fin.open_send_streams == 0 and fin.open_receive_streams == 0, "statistics-open-counts", {"final": [fin.open_send_streams, fin.open_receive_streams]})
    chk(fin.tasks_waiting_send == 0 and fin.tasks_waiting_receive == 0, "waiters-left-behind", [fin.tasks_waiting_send, fin.tasks_waiting_receive])
    cov.hit("delivered", len(recv_log) > 0)
    cov.hit("cancelled-party", any(v == "cancelled" for v in ended.values()))
    cov.hit("wouldblock", any(v == "wouldblock" for v in sends.values()))
    cov.hit("broken", any(v == "broken" for v in sends.values()))
    cov.hit("sender-was-blocked", any(b for (_i, b) in s_overtaken) or bool(s_overtaken))
