"""C20: async lru_cache -- right value, single flight, bounded retention.

Layer B on VLoop.  Two unit families:
  conc: NC concurrent callers, one call each; symbolic keys, start instants, per-key run time,
        first-execution failure flags, one cancel; maxsize split.
  seq : one task issuing a sequence of calls with symbolic keys and gaps; symbolic maxsize and
        ttl; oracle = an exact reference LRU(+ttl) model (and functools.lru_cache when ttl is None).
Real code executed: AsyncLRUCacheWrapper.__call__/cache_info/cache_clear, Lock (fast_acquire), RunVar.
"""
from __future__ import annotations

import asyncio
import functools as std_functools

from symx.core import Violation, chk
from symx.vloop import STUBS as LOOP_STUBS
from symx.vloop import CycleBudget, Deadlock, VLoop

NAME = "c20_lru"
STUBS = LOOP_STUBS
ASSUMPTIONS = [
    "keys range over {0,1,2}; the wrapped function returns (key, execution number) so stale or misrouted values are distinguishable",
    "retained results are counted by reading the wrapper's per-loop OrderedDict (entries whose lock slot is None)",
    "integer virtual-clock ticks; ttl in ticks",
]
OUTSIDE = ["more than 4 concurrent callers / 5 sequential calls", "methods (descriptor path)", "uvloop, trio"]
MUST_REACH = ["conc:full-while-in-flight", "conc:waiter-reuses-result", "conc:failed-flight-with-waiter", "conc:caller-cancelled-in-flight",
              "seq:eviction", "seq:ttl-expired", "seq:hit"]


class E(Exception):
    pass


def _retained(f):
    from anyio.functools import lru_cache_items

    try:
        entries = lru_cache_items.get()[f]
    except (LookupError, KeyError):
        return []
    return [k for k, v in entries.items() if v[1] is None]


def _conc_impl(sym, cov, keys, maxsize, eager=False, always_checkpoint=False, cancel=None, T=2, failkey=None, J=2):
    """keys: concrete key per caller (case split over set partitions of the callers);
    cancel: index of the caller whose scope is cancelled at a symbolic instant, or None."""
    import anyio
    from anyio.functools import lru_cache

    nc = len(keys)
    nk = max(keys) + 1
    st = [sym.int("s%d" % i, 0, T) for i in range(nc)]
    dur = [sym.int("d%d" % k, 0, T) for k in range(nk)] + [0] * (3 - nk)
    fail = [k == failkey for k in range(3)]  # the first execution of key `failkey` raises
    do_cancel = cancel is not None
    if do_cancel:
        ct = sym.int("ct", 0, T + 2)
        cj = sym.int("cj", 0, J)
    loop = VLoop(eager=eager)
    viol: list = []
    execs: list = []
    running: dict = {}
    calls: list = []
    final: dict = {}

    @lru_cache(maxsize=maxsize, always_checkpoint=always_checkpoint)
    async def f(k):
        n = sum(1 for e in execs if e["key"] == k)
        rec = {"key": k, "n": n, "start": loop.time(), "start_cycle": loop.cycles, "end": None, "exc": None, "end_cycle": None}
        execs.append(rec)
        running[k] = running.get(k, 0) + 1
        if running[k] > 1:
            viol.append(("double-flight", k))
        try:
            await anyio.sleep(dur[k])
            if n == 0 and fail[k]:
                rec["exc"] = E(k)
                raise rec["exc"]
            return (k, n)
        finally:
            running[k] -= 1
            rec["end"] = loop.time()
            rec["end_cycle"] = loop.cycles

    async def caller(i, scope):
        with scope:
            await anyio.sleep(st[i])
            inflight_other = [e for e in execs if e["end"] is None and e["key"] != keys[i]]
            inflight_same = [e for e in execs if e["end"] is None and e["key"] == keys[i]]
            retained = _retained(f)
            outstanding_same = [c2 for c2 in calls if c2["key"] == keys[i] and not c2["done"]]
            c = {"i": i, "done": False, "outstanding_same": len(outstanding_same), "key": keys[i], "t": loop.time(), "cycle": loop.cycles, "res": None, "exc": None, "cancelled": False,
                 "inflight_other": len(inflight_other), "inflight_same": len(inflight_same), "was_retained": (keys[i],) in retained,
                 "nretained": len(retained)}
            calls.append(c)
            try:
                c["res"] = await f(keys[i])
            except E as e:
                c["exc"] = e
            except asyncio.CancelledError:
                c["cancelled"] = True
                raise
            except Exception as e:
                c["exc"] = e
                viol.append(("internal-error", type(e).__name__))
            finally:
                c["done"] = True
            if maxsize is not None:
                r = _retained(f)
                if len(r) > maxsize:
                    viol.append(("retained>maxsize", len(r)))

    async def main():
        scopes = [anyio.CancelScope() for _ in range(nc)]
        if do_cancel:
            loop.env_at(ct, cj, scopes[cancel].cancel)
        async with anyio.create_task_group() as tg:
            for i in range(nc):
                tg.start_soon(caller, i, scopes[i])
        final["retained"] = _retained(f)
        final["info"] = f.cache_info()

    try:
        loop.run(main(), max_cycles=200)
    except (Deadlock, CycleBudget) as e:
        raise Violation("liveness:" + type(e).__name__)
    chk(not viol, viol[0][0] if viol else "", viol)
    for c in calls:
        k = c["key"]
        if c["cancelled"]:
            cov.hit("conc:caller-cancelled-in-flight")
            continue
        if c["exc"] is not None:
            chk(any(e["exc"] is c["exc"] for e in execs if e["key"] == k), "exception-not-from-wrapped-function")
            continue
        chk(c["res"] is not None and c["res"][0] == k, "wrong-value", {"key": k, "res": c["res"]})
        served = [e for e in execs if e["key"] == k and e["n"] == c["res"][1]]
        chk(len(served) == 1 and served[0]["exc"] is None, "value-from-no-execution")
        e = served[0]
        cov.hit("conc:waiter-reuses-result", c["inflight_same"] > 0)
        # calls with different arguments do not block one another: when no call with the same key is
        # outstanding and nothing is cached for it, the call's own execution starts in the very cycle it is made
        if c["outstanding_same"] == 0 and not c["was_retained"] and not always_checkpoint:
            mine = [e2 for e2 in execs if e2["key"] == k and e2["start_cycle"] == c["cycle"]]
            chk(len(mine) >= 1, "blocked-behind-other-key", {"call": c["i"], "other_in_flight": c["inflight_other"]})
        if maxsize is not None and maxsize > 0:
            cov.hit("conc:full-while-in-flight", c["inflight_other"] + c["nretained"] >= maxsize and c["inflight_other"] > 0)
    for k in range(3):
        es = [e for e in execs if e["key"] == k]
        cov.hit("conc:failed-flight-with-waiter", any(e["exc"] is not None for e in es) and sum(1 for c in calls if c["key"] == k) > 1)
    ret = final["retained"]
    info = final["info"]
    if maxsize is not None:
        chk(len(ret) <= maxsize, "retained>maxsize", {"retained": len(ret), "maxsize": maxsize})
    chk(info.currsize == len(ret), "currsize!=retained", {"currsize": info.currsize, "retained": len(ret)})
    ok_calls = [c for c in calls if not c["cancelled"] and c["exc"] is None]
    nexec_ok = sum(1 for e in execs if e["exc"] is None and e["end"] is not None)
    chk(info.hits + info.misses >= len(ok_calls), "hits+misses<completed-calls", {"info": list(info)})


def seq(sym, cov, ncalls, with_ttl, typed=False, floats=False, K=2, G=3, M=3, kw=False):
    """One task, a sequence of calls: exact reference model (LRU with ttl)."""
    import anyio
    from anyio.functools import lru_cache

    ms_none = sym.bool("maxsize.none")
    ms = sym.int("maxsize", 0, M)
    maxsize = None if ms_none else ms
    ttl = sym.int("ttl", 0, 3) if with_ttl else None  # 0: every entry has expired by the time it could be reused
    keys = [sym.int("k%d" % i, 0, K) for i in range(ncalls)]
    gaps = [sym.int("g%d" % i, 0, G if with_ttl else 0) for i in range(ncalls)]
    dur = sym.int("dur", 0, 1)
    asfloat = [sym.bool("fl%d" % i) for i in range(ncalls)] if floats else [False] * ncalls
    loop = VLoop()
    nexec = [0]
    out: list = []
    final: dict = {}

    @lru_cache(maxsize=maxsize, ttl=ttl, typed=typed)
    async def f(k):
        nexec[0] += 1
        await anyio.sleep(dur)
        return (k, nexec[0])

    async def main():
        for i in range(ncalls):
            await anyio.sleep(gaps[i])
            arg = float(keys[i]) if asfloat[i] else keys[i]
            t = loop.time()
            before = nexec[0]
            r = await (f(k=arg) if kw else f(arg))
            out.append({"key": keys[i], "fl": asfloat[i], "t": t, "executed": nexec[0] > before, "res": r, "t_end": loop.time()})
        final["info"] = f.cache_info()
        final["retained"] = _retained(f)

    try:
        loop.run(main(), max_cycles=300)
    except (Deadlock, CycleBudget) as e:
        raise Violation("liveness:" + type(e).__name__)
    # reference model
    model: list = []  # list of (mkey, value, expires) in LRU order (oldest first)
    hits = misses = 0
    for o in out:
        mkey = (o["key"], o["fl"]) if typed else o["key"]
        chk(o["res"][0] == o["key"], "wrong-value", o)
        if maxsize == 0:
            chk(o["executed"], "served-from-disabled-cache")
            misses += 1
            continue
        found = [m for m in model if m[0] == mkey]
        if found and (found[0][2] is None or o["t"] < found[0][2]):
            chk(not o["executed"], "recomputed-although-cached", o)
            chk(o["res"] == found[0][1], "stale-or-foreign-value", {"got": o["res"], "cached": found[0][1]})
            hits += 1
            cov.hit("seq:hit")
            model.remove(found[0])
            model.append(found[0])
        else:
            if found:
                cov.hit("seq:ttl-expired")
                model.remove(found[0])
            chk(o["executed"], "served-stale", {"call": o, "model": [m[0] for m in model]})
            misses += 1
            exp = None if ttl is None else o["t_end"] + ttl
            if maxsize is not None and len(model) >= maxsize:
                cov.hit("seq:eviction")
                model.pop(0)
            model.append((mkey, o["res"], exp))
    info = final["info"]
    chk(info.hits == hits and info.misses == misses, "hit/miss accounting", {"info": list(info), "model": [hits, misses]})
    if maxsize is not None:
        chk(len(final["retained"]) <= maxsize, "retained>maxsize", {"retained": len(final["retained"]), "maxsize": maxsize})
    chk(info.currsize == len(final["retained"]), "currsize!=retained", {"currsize": info.currsize, "retained": len(final["retained"])})
    chk(len(final["retained"]) == len(model), "retained!=model", {"retained": len(final["retained"]), "model": len(model)})
    if ttl is None and not typed and not sym.symbolic:
        # second opinion (concrete validation runs only: CrossHair intercepts the stdlib's lru_cache):
        # functools.lru_cache on the same key sequence
        @std_functools.lru_cache(maxsize=maxsize)
        def g(k):
            return k

        for o in out:
            g(o["key"])
        gi = g.cache_info()
        chk((gi.hits, gi.misses, gi.currsize) == (info.hits, info.misses, info.currsize), "differs-from-functools.lru_cache",
            {"std": list(gi), "anyio": list(info)})


def _partitions(n):
    """set partitions of n callers as canonical key vectors (restricted growth strings)."""
    out = []

    def rec(prefix, m):
        if len(prefix) == n:
            out.append(tuple(prefix))
            return
        for k in range(m + 1):
            if k <= 2:
                rec(prefix + [k], max(m, k + 1) if k == m else m)

    rec([], 0)
    return out


def units(tier):
    us = []
    quick = tier == "quick"
    for nc in ([3] if quick else [3, 4]):
        T = 1 if (quick or nc == 4) else 2
        for keys in _partitions(nc):
            nk = len(set(keys))
            for maxsize in (None, 1, 2):
                if quick and ((maxsize is None) != (nk == 1)) and not (nk == 1 and maxsize == 1):
                    continue
                for cancel in ((None, 0) if quick else (None, 0, nc - 1)):
                    for failkey in ((None, 0) if quick else [None] + list(range(nk))):
                        us.append({"name": "conc keys=%s maxsize=%s cancel=%s fail=%s" % ("".join(map(str, keys)), maxsize, cancel, failkey),
                                   "fn": _conc_impl,
                                   "params": {"keys": list(keys), "maxsize": maxsize, "cancel": cancel, "failkey": failkey, "T": T, "J": 1 if quick else 2},
                                   "budget_s": 240 if quick else 1200})
    if not quick:
        for keys in _partitions(3):
            us.append({"name": "conc-eager keys=%s maxsize=1" % "".join(map(str, keys)), "fn": _conc_impl,
                       "params": {"keys": list(keys), "maxsize": 1, "cancel": 0, "eager": True, "failkey": 0, "T": 1}, "budget_s": 900})
    us.append({"name": "conc keys=001 maxsize=1 always_checkpoint", "fn": _conc_impl,
               "params": {"keys": [0, 0, 1], "maxsize": 1, "always_checkpoint": True, "cancel": 0, "T": 1, "J": 1}, "budget_s": 240 if quick else 900})
    if quick:
        us.append({"name": "seq n=4", "fn": seq, "params": {"ncalls": 4, "with_ttl": False}, "budget_s": 240})
        us.append({"name": "seq n=3 ttl", "fn": seq, "params": {"ncalls": 3, "with_ttl": True, "K": 1, "G": 2, "M": 2}, "budget_s": 240})
        us.append({"name": "seq n=2 typed", "fn": seq, "params": {"ncalls": 2, "with_ttl": False, "typed": True, "floats": True, "K": 1, "M": 2}, "budget_s": 240})
        us.append({"name": "seq n=2 typed kwargs", "fn": seq, "params": {"ncalls": 2, "with_ttl": False, "typed": True, "floats": True, "K": 1, "M": 2, "kw": True}, "budget_s": 240})
        us.append({"name": "seq n=2 untyped-floats", "fn": seq, "params": {"ncalls": 2, "with_ttl": False, "typed": False, "floats": True, "K": 1, "M": 2}, "budget_s": 240})
    else:
        us.append({"name": "seq n=5", "fn": seq, "params": {"ncalls": 5, "with_ttl": False}, "budget_s": 1500})
        us.append({"name": "seq n=4 ttl", "fn": seq, "params": {"ncalls": 4, "with_ttl": True, "K": 1, "G": 3, "M": 2}, "budget_s": 1500})
        us.append({"name": "seq n=3 ttl K=2", "fn": seq, "params": {"ncalls": 3, "with_ttl": True, "K": 2, "G": 3, "M": 3}, "budget_s": 1500})
        us.append({"name": "seq n=3 typed", "fn": seq, "params": {"ncalls": 3, "with_ttl": False, "typed": True, "floats": True}, "budget_s": 900})
        us.append({"name": "seq n=3 untyped-floats", "fn": seq, "params": {"ncalls": 3, "with_ttl": False, "typed": False, "floats": True}, "budget_s": 900})
    return us
