"""C11: Event and Condition -- no early, spurious or lost wake-ups.

Layer A: Condition.notify(n) / notify_all() with SYMBOLIC n on a queue of <=3 waiters.
Layer B: W waiters enter `async with cond: await cond.wait()` at tick 0, a notifier issues notify(n1) and
notify(n2)/notify_all() at symbolic instants, one waiter's scope is cancelled (or its task natively
cancelled) at a symbolic instant (tick + cycle offset).  Event: waiters arriving before / in the cycle of /
after set().
"""
from __future__ import annotations

import asyncio

from symx.core import Violation, chk
from symx.vloop import STUBS as LOOP_STUBS
from symx.vloop import CycleBudget, Deadlock, VLoop

NAME = "c11_cond"
STUBS = LOOP_STUBS
ASSUMPTIONS = [
    "Layer B: all waiters start waiting before the first notification (queue membership only shrinks), which makes 'no notification lost' decidable from the log: "
    "if somebody is still waiting at the end, exactly sum(n_i) waiters returned",
]
OUTSIDE = ["more than 3 waiters, more than 2 notifications", "uvloop, trio"]
MUST_REACH = ["cond:notified-waiter-cancelled", "cond:queued-waiter-cancelled", "cond:somebody-left-waiting", "cond:all-released", "cond:ex-owner-notify-refused", "cond:stranger-acquire_nowait-failed",
              "cond:stranger-refused", "A:notify-more-than-waiting", "A:notify-zero", "event:waiter-before-set", "event:waiter-after-set", "event:waiter-cancelled"]


def cond_step(sym, cov, nq, op):
    """Layer A: notify(n) with unbounded symbolic n / notify_all on a queue of nq waiters."""
    import anyio

    loop = VLoop()
    out = {}

    async def main():
        cond = anyio.Condition()
        evs = []
        async with cond:
            for _ in range(nq):
                e = anyio.Event()
                cond._waiters.append(e)
                evs.append(e)
            if op == "notify":
                n = sym.int("n", 0, 1 << 30)
                cond.notify(n)
                want = n if n < nq else nq
                cov.hit("A:notify-more-than-waiting", n > nq)
                cov.hit("A:notify-zero", n == 0)
            else:
                cond.notify_all()
                want = nq
            woken = [i for i in range(nq) if evs[i].is_set()]
            out["woken"] = woken
            out["want"] = want
            out["left"] = len(cond._waiters)
            out["stat"] = cond.statistics().tasks_waiting

    loop.run(main())
    chk(out["woken"] == list(range(out["want"])), "notify-wrong-waiters", out)
    chk(out["left"] == nq - out["want"] and out["stat"] == out["left"], "notify-queue-accounting", out)


def cond_scn(sym, cov, W, cancel=None, native=False, second="notify", eager=False, T=2, J=2):
    import anyio
    from anyio import CancelScope

    loop = VLoop(eager=eager)
    t1 = sym.int("t1", 1, T)
    t2 = sym.int("t2", 1, T + 1)
    sym.assume(t1 <= t2)
    n1 = sym.int("n1", 0, W)
    n2 = sym.int("n2", 0, W)
    hold = sym.int("hold", 0, 1)  # the notifier keeps the lock for `hold` ticks after notify()
    if cancel is not None:
        ct = sym.int("ct", 0, T + 2)
        cj = sym.int("cj", 0, J)
    order: list = []  # waiters in the order they called wait()
    result: dict = {}  # i -> 'returned' | 'cancelled'
    viol: list = []
    tasks: dict = {}
    state: dict = {"issued": 0}

    def bad(c, d=None):
        viol.append((c, d))

    async def main():
        cond = anyio.Condition()

        def holds_lock():
            st = cond.statistics().lock_statistics
            return st.locked and st.owner is not None and st.owner.id == id(asyncio.current_task())

        async def waiter(i, scope):
            tasks[i] = asyncio.current_task()
            try:
                with scope:
                    await cond.acquire()
                    try:
                        order.append(i)
                        try:
                            await cond.wait()
                        except BaseException:
                            result[i] = "cancelled"
                            state["issued_at_raise"] = state["issued"]
                            if not holds_lock():
                                bad("wait-raised-without-holding-lock", i)
                            raise
                        result[i] = "returned"
                        if not holds_lock():
                            bad("wait-returned-without-holding-lock", i)
                        if state["issued"] == 0:
                            bad("wait-returned-before-any-notify", i)
                    finally:
                        if holds_lock():
                            cond.release()
            except asyncio.CancelledError:
                if native and i == cancel and state.get("native_fired"):
                    asyncio.current_task().uncancel()
                else:
                    raise

        async def notifier():
            await anyio.sleep(t1)
            async with cond:
                state["issued"] += n1
                cond.notify(n1)
                await anyio.sleep(hold)
                # still the owner, whatever other tasks attempted meanwhile (e.g. a failed acquire_nowait())
                try:
                    cond.notify(0)
                except RuntimeError:
                    bad("owner-refused-while-holding-the-lock", "notify after hold")
            # the lock has been released: the former owner must be refused now
            try:
                cond.notify()
                bad("notify-without-lock-accepted", "ex-owner")
            except RuntimeError:
                cov.hit("cond:ex-owner-notify-refused")
            try:
                cond.notify_all()
                bad("notify_all-without-lock-accepted", "ex-owner")
            except RuntimeError:
                pass
            await anyio.sleep(t2 - t1)
            async with cond:
                if second == "notify":
                    state["issued"] += n2
                    cond.notify(n2)
                else:
                    state["issued"] += W
                    cond.notify_all()

        async def stranger():
            await anyio.sleep(t1)
            # a failed acquire_nowait() does not make the caller the owner (a successful one is released at once)
            try:
                cond.acquire_nowait()
                cond.release()
            except anyio.WouldBlock:
                cov.hit("cond:stranger-acquire_nowait-failed")
            before = cond.statistics().tasks_waiting
            for name in ("notify", "notify_all"):
                try:
                    getattr(cond, name)()
                    bad(name + "-without-lock-accepted", "stranger")
                except RuntimeError:
                    cov.hit("cond:stranger-refused")
            try:
                await cond.wait()
                bad("wait-without-lock-accepted", "stranger")
            except RuntimeError:
                pass
            if cond.statistics().tasks_waiting != before:
                bad("refused-wait-left-a-waiter-entry", {"before": before, "after": cond.statistics().tasks_waiting})

        scopes = [CancelScope() for _ in range(W)]

        def fire_cancel():
            if native:
                t = tasks.get(cancel)
                if t is not None and not t.done():
                    state["native_fired"] = True
                    t.cancel()
            else:
                scopes[cancel].cancel()
            state["cancel_at_issued"] = state["issued"]

        if cancel is not None:
            loop.env_at(ct, cj, fire_cancel)
        async with anyio.create_task_group() as tg:
            for i in range(W):
                tg.start_soon(waiter, i, scopes[i])
            tg.start_soon(notifier)
            tg.start_soon(stranger)
            await anyio.sleep(T + 4)
            # quiescent: everything scripted has happened
            state["R"] = sum(1 for v in result.values() if v == "returned")
            state["C"] = sum(1 for i, v in result.items() if v == "cancelled" and i in order)
            state["issued_scripted"] = state["issued"]
            state["K"] = cond.statistics().tasks_waiting
            state["order"] = list(order)
            state["result"] = dict(result)
            state["issued"] += W  # the drain below is a notification too
            async with cond:
                cond.notify_all()  # let the rest go

    try:
        loop.run(main(), max_cycles=400)
    except (Deadlock, CycleBudget) as e:
        raise Violation("liveness:" + type(e).__name__, {"result": result})
    chk(not viol, viol[0][0] if viol else "", viol)
    R, C, K = state["R"], state["C"], state["K"]
    issued = state["issued_scripted"]
    # (a waiter cancelled before it reached wait() never joined the queue)
    chk(R + C + K == len(state["order"]), "waiter-accounting", {"returned": R, "cancelled": C, "waiting": K, "started": state["order"]})
    # notify(n) releases at most n (no spurious wake-up)
    chk(R <= issued, "more-returned-than-notified", {"returned": R, "issued": issued})
    # nothing lost: with somebody still waiting every issued notification was consumed by a returning waiter
    if K > 0:
        chk(R == issued, "notification-lost", {"returned": R, "issued": issued, "still_waiting": K, "result": state["result"]})
        cov.hit("cond:somebody-left-waiting")
    else:
        cov.hit("cond:all-released")
    # in waiting order: nobody returned while an earlier, never-cancelled waiter is still waiting
    res = state["result"]
    for pos, i in enumerate(state["order"]):
        if res.get(i) == "returned":
            for j in state["order"][:pos]:
                chk(j in res, "overtaken-in-wait-order", {"returned": i, "still_waiting_ahead": j})
    if cancel is not None and res.get(cancel) == "cancelled":
        pos = state["order"].index(cancel) if cancel in state["order"] else 99
        # by the time the cancelled waiter resumed, had a notification already selected it?
        cov.hit("cond:notified-waiter-cancelled", state.get("issued_at_raise", 0) > pos)
        cov.hit("cond:queued-waiter-cancelled", state.get("issued_at_raise", 0) <= pos)


def event_scn(sym, cov, W, cancel=None, eager=False, T=2, J=2, adapter=False):
    """adapter: the Event is instantiated OUTSIDE the event loop (module level / before anyio.run): an EventAdapter that binds to
    a backend event on first use; it may already be set by then (symbolic)"""
    import anyio
    from anyio import CancelScope

    loop = VLoop(eager=eager)
    ev0 = None
    if adapter:
        ev0 = anyio.Event()
        chk(type(ev0).__name__ == "EventAdapter", "harness-error:expected-an-EventAdapter", type(ev0).__name__)
        preset = sym.bool("preset")
    st = sym.int("set_t", 0, T)
    sj = sym.int("set_j", 0, J)
    s = [sym.int("s%d" % i, 0, T) for i in range(W)]
    if cancel is not None:
        ct = sym.int("ct", 0, T + 1)
        cj = sym.int("cj", 0, J)
    log: dict = {}
    viol: list = []
    state: dict = {"set": False}

    if adapter and preset:
        state["set"] = True
        ev0.set()
        if not ev0.is_set():
            viol.append(("set-event-not-set", "before the loop runs"))

    async def main():
        ev = ev0 if adapter else anyio.Event()

        async def waiter(i, scope):
            with scope:
                try:
                    await anyio.sleep(s[i])
                    was_set = ev.is_set()
                    if was_set != state["set"]:
                        viol.append(("is_set-differs-from-history", {"is_set": was_set, "set_called": state["set"]}))
                    await ev.wait()
                except BaseException:
                    log[i] = "cancelled"
                    raise
                log[i] = "returned"
                if not state["set"]:
                    viol.append(("wait-returned-before-set", i))
                cov.hit("event:waiter-before-set", not was_set)
                cov.hit("event:waiter-after-set", was_set)

        def do_set():
            state["set"] = True
            ev.set()
            ev.set()  # idempotent
            if not ev.is_set():
                viol.append(("set-event-not-set", None))

        scopes = [CancelScope() for _ in range(W)]
        loop.env_at(st, sj, do_set)
        if cancel is not None:
            loop.env_at(ct, cj, scopes[cancel].cancel)
        async with anyio.create_task_group() as tg:
            for i in range(W):
                tg.start_soon(waiter, i, scopes[i])
        if not ev.is_set():
            viol.append(("event-unset-again", None))
        if ev.statistics().tasks_waiting:
            viol.append(("waiters-left", ev.statistics().tasks_waiting))

    try:
        loop.run(main(), max_cycles=400)
    except (Deadlock, CycleBudget) as e:
        raise Violation("liveness:" + type(e).__name__, dict(log))
    chk(not viol, viol[0][0] if viol else "", viol)
    for i in range(W):
        chk(i in log, "waiter-never-released", i)
        if i != cancel:
            chk(log[i] == "returned", "uncancelled-waiter-did-not-return", {"waiter": i, "outcome": log[i]})
    cov.hit("event:waiter-cancelled", cancel is not None and log.get(cancel) == "cancelled")


def units(tier):
    quick = tier == "quick"
    us = []
    B = 240 if quick else 1500
    for nq in range(0, 4):
        us.append({"name": "A notify nq=%d" % nq, "fn": cond_step, "params": {"nq": nq, "op": "notify"}, "budget_s": 60, "certify": True})
        us.append({"name": "A notify_all nq=%d" % nq, "fn": cond_step, "params": {"nq": nq, "op": "all"}, "budget_s": 60})
    for W in ((2,) if quick else (2, 3)):
        for cancel in [None] + list(range(W)):
            for native in ((False, True) if cancel is not None else (False,)):
                us.append({"name": "cond W=%d cancel=%s native=%s" % (W, cancel, native), "fn": cond_scn,
                           "params": {"W": W, "cancel": cancel, "native": native, "T": 2 if W == 2 else 1}, "budget_s": B})
    us.append({"name": "cond W=3 cancel=0", "fn": cond_scn, "params": {"W": 3, "cancel": 0, "T": 1, "J": 2}, "budget_s": B})
    us.append({"name": "cond W=3 cancel=1 native", "fn": cond_scn, "params": {"W": 3, "cancel": 1, "native": True, "T": 1, "J": 1 if quick else 2}, "budget_s": B})
    us.append({"name": "cond W=2 notify_all cancel=0", "fn": cond_scn, "params": {"W": 2, "cancel": 0, "second": "all", "T": 1}, "budget_s": B})
    for cancel in (None, 0):
        us.append({"name": "event W=2 cancel=%s" % cancel, "fn": event_scn, "params": {"W": 2, "cancel": cancel}, "budget_s": B})
        us.append({"name": "event created outside the loop W=2 cancel=%s" % cancel, "fn": event_scn, "params": {"W": 2, "cancel": cancel, "adapter": True, "T": 1}, "budget_s": B})
    if not quick:
        for cancel in (None, 0, 1):
            us.append({"name": "cond W=2 T=3 cancel=%s" % cancel, "fn": cond_scn, "params": {"W": 2, "cancel": cancel, "T": 3, "J": 2}, "budget_s": B})
            us.append({"name": "cond W=3 T=2 notify_all cancel=%s" % cancel, "fn": cond_scn, "params": {"W": 3, "cancel": cancel, "second": "all", "T": 2, "J": 1}, "budget_s": B})
        for cancel in (0, 1, 2):
            us.append({"name": "event W=3 T=3 cancel=%d" % cancel, "fn": event_scn, "params": {"W": 3, "cancel": cancel, "T": 3}, "budget_s": B})
        for cancel in (1, 2):
            us.append({"name": "cond W=3 cancel=%d J=2" % cancel, "fn": cond_scn, "params": {"W": 3, "cancel": cancel, "T": 1, "J": 2}, "budget_s": B})
        us.append({"name": "event created outside the loop W=3 cancel=1", "fn": event_scn, "params": {"W": 3, "cancel": 1, "adapter": True, "T": 2}, "budget_s": B})
        us.append({"name": "event W=3 cancel=1", "fn": event_scn, "params": {"W": 3, "cancel": 1}, "budget_s": B})
        us.append({"name": "cond W=2 cancel=0 eager", "fn": cond_scn, "params": {"W": 2, "cancel": 0, "eager": True}, "budget_s": B})
        us.append({"name": "event W=2 cancel=0 eager", "fn": event_scn, "params": {"W": 2, "cancel": 0, "eager": True}, "budget_s": B})
    return us
