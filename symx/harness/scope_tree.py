"""Shared Layer-B scenario for cancel scopes (C03 level-triggered delivery, C04 containment,
C05 no residue, C06 deadlines).

Program (on one task, optionally inside a child task of a task group):
    level 0 .. D-1 nested `with CancelScope(shield=sh[i], deadline=dl[i])`, each level doing
        op(pre[i]) ; <inner level> ; op(post[i])
    where op(w) = anyio.sleep(w) (w == 0 is a pure checkpoint).  A 'stubborn' level swallows the first
    cancellation it sees and awaits again (the cancellation must be delivered again: level-triggered).
Environment actions at symbolic instants (tick, cycle offset): scope[c].cancel(), scope[s].shield = v,
scope[r].deadline = nd.  Deadlines are symbolic virtual-clock ticks.

The oracle is an independent reference semantics evaluated on the observation log:
    eff(L, instant) = exists j <= L: cancelled[j] and no shield[k] for j < k <= L        (trio-style)
Clauses are tagged with the property they belong to; `props` selects which are enforced.
"""
from __future__ import annotations

import asyncio
import math

from symx.core import Violation, chk
from symx.vloop import CycleBudget, Deadlock, VLoop

def _leaves(eg):
    for x in eg.exceptions:
        if isinstance(x, BaseExceptionGroup):
            yield from _leaves(x)
        else:
            yield x


K_CYCLES = 4  # "small bounded number of event-loop cycles" for delivery (measured: <= 2 on the unchanged tree)
INF = 1 << 20


def scn(sym, cov, props, D, T=2, cancel=None, cancel2=None, toggle=None, stubborn=None, deadlines=(), redeadline=None,
        shields="sym", in_child=False, eager=False, J=2, pre_cancel=None, helper=None, native_after=False, post0=False, redeadline2=False, script=(), raise_at=None, dl_may_be_inf=False, pre_native=False, deadline_outside=None, native_child_cancel=None):
    """props: set of property ids whose clauses are enforced.
    cancel / cancel2: level whose scope is cancelled by the environment at a symbolic instant (or None)
    toggle: (level, value): scope[level].shield = value at a symbolic instant
    deadlines: levels that get a symbolic deadline (ticks); redeadline: (level,) reassigned at a symbolic instant to a symbolic value
    shields: 'sym' (every level's initial shield flag symbolic) | tuple of bools
    pre_cancel: level cancelled BEFORE it is entered (by the task itself)
    helper: None | 'move_on_after' | 'fail_after' | 'move_on_at' | 'fail_at' -- level D-1 is created through that helper (needs deadlines=(D-1,))
    native_after: after the outermost scope, use asyncio.timeout()/Task.cancelling() (C05)
    dl_may_be_inf: the initial deadline of the 'deadlines' levels may also be infinite (symbolic flag)
    pre_native: the host task already carries one native cancellation request (Task.cancel() swallowed earlier)
    deadline_outside: 'before' assigns the level-0 deadline through the setter BEFORE the scope is entered,
        'after' assigns a finite deadline to the level-0 scope AFTER it has been left
    native_child_cancel: level -- after its first operation the innermost level creates a task with asyncio.create_task()
        which immediately cancels that level's scope (on the eager task factory this happens INSIDE the creator's step);
        whether the levels perform their post-operations at all is symbolic (`skip_post`)
    raise_at: (level, kind): the level's post-operation is replaced by raising -- 'value' a ValueError, 'group' an
        ExceptionGroup holding only a ValueError, 'foreign-chain' sleep(post) and, if that is interrupted, an OSError during
        whose handling a CancelledError not tagged by any cancel scope is raised, 'group+cancel' sleep(post) and, if that is interrupted, a
        BaseExceptionGroup holding the cancellation exception and a ValueError"""
    import anyio
    from anyio import CancelScope

    loop = VLoop(eager=eager)
    pre = [sym.int("pre%d" % i, 0, T) for i in range(D)]
    post = [0] * D if post0 else [sym.int("post%d" % i, 0, T) for i in range(D)]
    if shields == "sym":
        sh0 = [sym.bool("sh%d" % i) for i in range(D)]
    else:
        sh0 = list(shields)
    dl = {}
    for i in deadlines:
        dl[i] = sym.int("dl%d" % i, 0, 2 * T + 1)
        if dl_may_be_inf and sym.bool("dl%d_inf" % i):
            dl[i] = math.inf
    horizon = 2 * T * D + 2
    evs = []  # environment actions: dicts kind, level, value, t, j
    if cancel is not None:
        evs.append({"kind": "cancel", "level": cancel, "t": sym.int("ct", 0, horizon if D <= 2 else 2 * T + 1), "j": sym.int("cj", 0, J)})
    if cancel2 is not None:
        evs.append({"kind": "cancel", "level": cancel2, "t": sym.int("ct2", 0, 2 * T + 1), "j": sym.int("cj2", 0, 1)})
    if toggle is not None:
        evs.append({"kind": "shield", "level": toggle[0], "value": toggle[1], "t": sym.int("st", 0, 2 * T + 1), "j": sym.int("sj", 0, 1)})
    if redeadline is not None:
        evs.append({"kind": "deadline", "level": redeadline[0], "value": sym.int("nd", 0, 2 * T + 2), "inf": sym.bool("nd_inf"),
                    "t": sym.int("rt", 0, 2 * T + 1), "j": sym.int("rj", 0, min(J, 1))})
    if redeadline is not None and redeadline2:
        evs.append({"kind": "deadline", "level": redeadline[0], "value": sym.int("nd2", 0, 2 * T + 2), "inf": sym.bool("nd2_inf"),
                    "t": sym.int("rt2", 0, 2 * T + 1), "j": 0})
    for (kind, lv, val, tt, jj) in script:  # concrete, scripted environment actions
        evs.append({"kind": kind, "level": lv, "value": val, "inf": val == "inf", "t": tt, "j": jj})
    nsw = sym.int("nsw", 1, 3) if stubborn is not None else 0
    skip_post = sym.bool("skip_post") if native_child_cancel is not None else False
    if native_after:
        nto = sym.int("nto", 0, T)  # asyncio.timeout(nto) around sleep(nsl) after the scopes
        nsl = sym.int("nsl", 0, T)

    scopes: dict = {}
    ops: list = []  # op records
    exits: list = []  # scope exit records
    timeline: list = []  # applied state changes: (cycle, tick, kind, level, value)
    state = {"task": None, "fired": []}
    viol: list = []
    active: set = set()

    def bad(prop, clause, detail=None):
        if prop in props:
            viol.append((prop + ":" + clause, detail))

    def now():
        return (loop.cycles, loop.time())

    async def op(level, which, w):
        rec = {"level": level, "which": which, "w": w, "cin": loop.cycles, "tin": loop.time(), "out": None, "again": None}
        if "C06" in props:
            rec["eds"] = (anyio.current_effective_deadline(),
                          [(scopes[j].cancel_called, scopes[j].shield, scopes[j].deadline) for j in range(level, -1, -1)])
        ops.append(rec)
        rec["pin"] = len(timeline)
        try:
            await anyio.sleep(w)
            rec["out"] = "done"
        except asyncio.CancelledError:
            rec["out"] = "cancelled"
            rec["cout"], rec["tout"] = now()
            rec["pout"] = len(timeline)
            if stubborn == level and not state.get("swallowed"):
                state["swallowed"] = True
                # swallow the cancellation nsw times; each further await must be interrupted again
                for rep in range(nsw):
                    rec2 = {"level": level, "which": which + "+again", "w": 0, "cin": loop.cycles, "tin": loop.time(), "out": None, "pin": len(timeline)}
                    ops.append(rec2)
                    try:
                        await anyio.sleep(0)
                        rec2["out"] = "done"
                    except asyncio.CancelledError as exc:
                        rec2["out"] = "cancelled"
                        rec2["cout"], rec2["tout"] = now()
                        rec2["pout"] = len(timeline)
                        if rep == nsw - 1:
                            raise
                        continue
                    rec2["cout"], rec2["tout"] = now()
                    rec2["pout"] = len(timeline)
                    return
            raise
        rec["cout"], rec["tout"] = now()
        rec["pout"] = len(timeline)

    def mk_scope(i):
        shield = sh0[i]
        if helper is not None and i == D - 1:
            d = dl[i]
            if helper == "move_on_after":
                return anyio.move_on_after(d - loop.time() if True else d, shield=shield), d
            if helper == "fail_after":
                return anyio.fail_after(d - loop.time(), shield=shield), d
            if helper == "move_on_at":
                return anyio.move_on_at(d, shield=shield), d
            if helper == "fail_at":
                return anyio.fail_at(d, shield=shield), d
        d = dl.get(i, math.inf)
        if deadline_outside == "before" and i == 0:
            sc_ = CancelScope(shield=shield)
            sc_.deadline = d  # through the setter, while the scope is not active
            return sc_, d
        return CancelScope(shield=shield, deadline=d), d

    async def level(i):
        task = asyncio.current_task()
        cm, d = mk_scope(i)
        if pre_cancel == i:
            cm.cancel()  # cancelled before it is entered
            timeline.append((loop.cycles, loop.time(), "cancel", i, None))
        ex = {"level": i, "cancelling_in": task.cancelling(), "passed": None, "raised": None, "timeout_error": False}
        try:
            with cm as scope:
                scopes[i] = scope
                active.add(i)
                timeline.append((loop.cycles, loop.time(), "enter", i, (sh0[i], d)))
                try:
                    await op(i, "pre", pre[i])
                    if native_child_cancel is not None and i == D - 1:
                        async def canceller():
                            if native_child_cancel in active:  # (a scope that has been left is not touched)
                                scopes[native_child_cancel].cancel()
                                timeline.append((loop.cycles, loop.time(), "cancel", native_child_cancel, None))

                        state["native_child"] = asyncio.create_task(canceller())
                        state["native_child_ran_in_creator_step"] = state["native_child"].done()
                    if i + 1 < D:
                        await level(i + 1)
                    if raise_at is not None and raise_at[0] == i:
                        kind = raise_at[1]
                        if kind == "value":
                            ex["raised"] = "value"
                            raise ValueError("boom")
                        if kind == "group":
                            ex["raised"] = "group"
                            raise ExceptionGroup("g", [ValueError("boom")])
                        if kind == "foreign-chain":
                            # cleanup after an AnyIO cancellation hits an error; while that error is being handled a
                            # cancellation that does NOT come from a cancel scope is raised
                            try:
                                await op(i, "post", post[i])
                            except asyncio.CancelledError:
                                try:
                                    raise OSError("cleanup failed")
                                except OSError:
                                    state["foreign_exc"] = asyncio.CancelledError("not from a cancel scope")
                                    raise state["foreign_exc"]
                        else:
                            try:
                                await op(i, "post", post[i])
                            except asyncio.CancelledError as cexc:
                                ex["raised"] = "group+cancel"
                                raise BaseExceptionGroup("g", [cexc, ValueError("boom")])
                    elif not skip_post:
                        await op(i, "post", post[i])
                except asyncio.CancelledError as cexc_:
                    ex["raised"] = "foreign" if cexc_ is state.get("foreign_exc") else "cancel"
                    raise
                finally:
                    ex["cexit"], ex["texit"] = now()
                    ex["pexit"] = len(timeline)
                    active.discard(i)
                    timeline.append((loop.cycles, loop.time(), "exit", i, None))
            ex["passed"] = False
        except asyncio.CancelledError:
            ex["passed"] = True
            raise
        except TimeoutError:
            ex["passed"] = False
            ex["timeout_error"] = True
        except BaseExceptionGroup as eg:
            leaves = list(_leaves(eg))
            ex["passed_value"] = any(isinstance(x, ValueError) for x in leaves)
            ex["passed"] = any(isinstance(x, asyncio.CancelledError) for x in leaves)
            if ex["raised"] is None:
                ex["raised"] = "from-inner:" + ("group+cancel" if ex["passed"] else "group")
            raise
        except ValueError:
            ex["passed_value"] = True
            ex["passed"] = False
            if ex["raised"] is None:
                ex["raised"] = "from-inner:value"
            raise
        finally:
            sc = scopes.get(i)
            ex["caught"] = sc.cancelled_caught if sc is not None else None
            ex["cancel_called"] = sc.cancel_called if sc is not None else None
            ex["cancelling_out"] = task.cancelling()
            exits.append(ex)

    def fire(e):
        sc = scopes.get(e["level"])
        e["at"] = now()
        if sc is None or e["level"] not in active:
            e["skipped"] = "not-active"  # before entry or after exit: no action
            return
        if e["kind"] == "cancel":
            sc.cancel()
            timeline.append((loop.cycles, loop.time(), "cancel", e["level"], None))
        elif e["kind"] == "shield":
            sc.shield = e["value"]
            timeline.append((loop.cycles, loop.time(), "shield", e["level"], e["value"]))
        else:
            v = math.inf if e["inf"] else e["value"]
            sc.deadline = v
            timeline.append((loop.cycles, loop.time(), "deadline", e["level"], v))

    async def body():
        state["task"] = asyncio.current_task()
        if pre_native:
            asyncio.current_task().cancel()
            try:
                await asyncio.sleep(0)
            except asyncio.CancelledError:
                pass  # swallowed: Task.cancelling() stays at 1 from here on
        c0 = asyncio.current_task().cancelling()
        try:
            await level(0)
        except asyncio.CancelledError:
            state["escaped"] = True
        except (ValueError, BaseExceptionGroup) as e_top:
            state["escaped_value"] = True
            if isinstance(e_top, BaseExceptionGroup) and any(isinstance(x, asyncio.CancelledError) for x in _leaves(e_top)):
                state["escaped"] = True
        state["cancelling_after"] = asyncio.current_task().cancelling() - c0
        state["cancel_called_at_exit"] = {i: sc.cancel_called for i, sc in scopes.items()}
        if deadline_outside == "after" and 0 in scopes:
            scopes[0].deadline = loop.time() + 1  # assigning a deadline to a scope that has been left must not arm anything
        # residue probes (C05): later awaits run undisturbed
        for k in range(3):
            try:
                await asyncio.sleep(0)
            except asyncio.CancelledError:
                bad("C05", "await-after-scopes-cancelled", k)
        if native_after:
            t0 = loop.time()
            try:
                async with asyncio.timeout(nto):
                    await asyncio.sleep(nsl)
                fired_to = False
            except TimeoutError:
                fired_to = True
            except asyncio.CancelledError:
                bad("C05", "native-timeout-leaked-cancellation")
                fired_to = None
            state["native_timeout"] = (fired_to, nto, nsl)
            if asyncio.current_task().cancelling() != c0:
                bad("C05", "cancelling-count-after-native-timeout", asyncio.current_task().cancelling())

    async def main():
        for e in evs:
            loop.env_at(e["t"], e["j"], fire, e)
        if in_child:
            async with anyio.create_task_group() as tg:
                tg.start_soon(body)
        else:
            await body()

    try:
        loop.run(main(), max_cycles=600, drain_cycles=40)
    except Deadlock:
        if "C03" in props:
            raise Violation("C03:liveness:Deadlock", {"ops": [(o["level"], o["which"], o["out"]) for o in ops]})
        return
    except CycleBudget:
        if "C05" in props or "C03" in props:
            raise Violation(("C05" if "C05" in props else "C03") + ":liveness:CycleBudget")
        return

    # ---------------- reference semantics on the log -------------------------------------------
    def state_at(pos):
        """scope state (cancelled, shield per level) after the first `pos` timeline entries."""
        cancelled = {}
        shield = {}
        for (c, t, kind, lv, val) in timeline[:pos]:
            if kind == "enter":
                shield[lv] = val[0]
                cancelled.setdefault(lv, False)
            elif kind == "cancel":
                cancelled[lv] = True
            elif kind == "shield":
                shield[lv] = val
        return cancelled, shield

    def eff(L, cancelled, shield):
        for j in range(L, -1, -1):
            if cancelled.get(j):
                return True
            if shield.get(j):
                return False
        return False

    def eff_at(L, pos):
        ca, shd = state_at(pos)
        return eff(L, ca, shd)

    ref_fire = {}  # level -> (tick | None, ambiguous)
    for i in deadlines:
        ent = [x for x in timeline if x[2] == "enter" and x[3] == i]
        exi = [x for x in timeline if x[2] == "exit" and x[3] == i]
        if not ent:
            continue
        seg_start = ent[0][1]
        b_t = exi[0][1] if exi else 10 ** 9
        cur = dl[i]
        changes = [x for x in timeline if x[2] == "deadline" and x[3] == i]
        fire_t, amb = None, False
        n_applied = 0  # reassignments applied before the (reference) firing
        for ch in changes + [None]:
            seg_end = ch[1] if ch is not None else b_t
            if cur <= seg_start:
                fire_t = seg_start  # already passed when armed: cancelled immediately
                break
            if cur != math.inf:
                if cur < seg_end:
                    fire_t = cur
                    break
                if cur == seg_end:
                    amb = True  # due in the very tick of the next reassignment / of the block's end: a tie
                    break
            if ch is None:
                break
            cur = ch[4]
            seg_start = ch[1]
            n_applied += 1
        ref_fire[i] = (fire_t, amb)
        state.setdefault("changes_before_fire", {})[i] = (n_applied, len(changes))
    # ---- per-operation clauses (only explicit cancels are in the timeline: skipped when deadlines are in play) ----
    for o in ops:
        L = o["level"]
        if o["out"] is None:
            bad("C03", "operation-never-finished", (L, o["which"]))
            continue
        if deadlines:
            continue
        pin, pout = o["pin"], o["pout"]
        effs = [eff_at(L, p) for p in range(pin, pout + 1)]  # at entry and after each event during the operation
        if o["out"] == "cancelled":
            if not any(effs):
                bad("C04", "cancelled-although-scope-not-effectively-cancelled", {"level": L, "op": o["which"], "timeline": timeline[:pout]})
            # latency: delivered within K cycles of the later of entry and the first effective cancellation
            k0 = effs.index(True) if any(effs) else 0
            c_first = o["cin"] if k0 == 0 else timeline[pin + k0 - 1][0]
            t_first = o["tin"] if k0 == 0 else max(o["tin"], timeline[pin + k0 - 1][1])
            if o["cout"] - max(o["cin"], c_first) > K_CYCLES:
                bad("C03", "cancellation-delivered-late", {"level": L, "op": o["which"], "cycles": o["cout"] - max(o["cin"], c_first)})
            # ... and without the loop going idle in between (no virtual time passes while a task is blocked in an
            # effectively cancelled scope), unless a shield was in force for part of the time
            if all(effs[k0:]) and o["tout"] != t_first:
                bad("C03", "loop-went-idle-with-a-task-blocked-in-a-cancelled-scope", {"level": L, "op": o["which"], "cancel_tick": t_first, "interrupted_tick": o["tout"]})
        else:
            # completed normally: find the first point from which the scope stayed effectively cancelled to the end
            k = None
            for idx in range(len(effs) - 1, -1, -1):
                if effs[idx]:
                    k = idx
                else:
                    break
            if k is not None:
                if k == 0:
                    bad("C03", "checkpoint-did-not-raise-in-cancelled-scope", {"level": L, "op": o["which"], "w": o["w"], "timeline": timeline[:pout]})
                else:
                    ev_tick = timeline[pin + k - 1][1]
                    if ev_tick < o["tin"] + o["w"]:
                        bad("C03", "completed-although-cancelled-before-wakeup-was-due", {"level": L, "op": o["which"], "w": o["w"], "cancel_tick": ev_tick, "due": o["tin"] + o["w"]})
        cov.hit("op-cancelled-while-blocked", o["out"] == "cancelled" and o["w"] > 0 and not effs[0])
        cov.hit("op-cancelled-at-entry", o["out"] == "cancelled" and effs[0])
        ca, shd = state_at(pout)
        cov.hit("op-completed-behind-shield", o["out"] == "done" and any(ca.get(j) for j in range(L + 1)) and not any(effs))
        cov.hit("redelivered-after-swallow", o["which"].endswith("+again") and o["out"] == "cancelled")
    # what reached a scope's exit from a deeper level is what LEFT the next inner level
    by_level = {e["level"]: e for e in exits}
    for e in exits:
        if isinstance(e.get("raised"), str) and e["raised"].startswith("from-inner"):
            inner = by_level.get(e["level"] + 1)
            if inner is not None:
                if inner.get("passed") and inner.get("passed_value"):
                    e["raised"] = "from-inner:group+cancel"
                elif inner.get("passed_value"):
                    e["raised"] = "from-inner:group"
    # ---- per-scope-exit clauses (C04) ---------------------------------------------------------------
    for ex in exits:
        i = ex["level"]
        if "pexit" not in ex:
            continue
        ca, shd = state_at(ex["pexit"])
        own = bool(ex["cancel_called"])
        parent_visible = (i > 0) and (not shd.get(i)) and eff(i - 1, ca, shd)
        if ex["raised"] == "cancel":
            should_absorb = own and not parent_visible
            if not deadlines or True:
                if ex["passed"] and should_absorb:
                    bad("C04", "own-cancellation-not-absorbed", {"level": i, "timeline": timeline})
                if (not ex["passed"]) and not should_absorb and not ex["timeout_error"]:
                    bad("C04", "foreign-cancellation-absorbed", {"level": i, "own": own, "parent_visible": parent_visible})
                if bool(ex["caught"]) != ((not ex["passed"]) and True):
                    bad("C04", "cancelled_caught-wrong", {"level": i, "caught": ex["caught"], "passed": ex["passed"]})
            cov.hit("scope-absorbed-own-cancel", not ex["passed"])
            cov.hit("cancel-passed-through-inner-scope", ex["passed"])
        elif ex["raised"] == "foreign":
            # a cancellation exception that does not stem from any cancel scope is not an AnyIO cancellation
            if not ex["passed"]:
                bad("C04", "foreign-cancellation-absorbed", {"level": i, "own": own, "chain": "CancelledError <- OSError <- AnyIO cancellation"})
            if ex["caught"]:
                bad("C04", "cancelled_caught-although-nothing-absorbed", {"level": i, "kind": "foreign"})
            cov.hit("foreign-cancellation-through-cancelled-scope", own)
        elif ex["raised"] in ("value", "group", "from-inner:value", "from-inner:group"):
            # exceptions other than AnyIO cancellations always pass through, and absorb nothing
            if not ex.get("passed_value"):
                bad("C04", "non-cancellation-exception-swallowed", {"level": i, "kind": ex["raised"]})
            if ex["caught"]:
                bad("C04", "cancelled_caught-although-nothing-absorbed", {"level": i, "kind": ex["raised"], "cancel_called": own})
            cov.hit("non-cancellation-exception-through-cancelled-scope", own)
        elif ex["raised"] in ("group+cancel", "from-inner:group+cancel"):
            should_absorb = own and not parent_visible
            if not ex.get("passed_value"):
                bad("C04", "non-cancellation-exception-swallowed", {"level": i, "kind": ex["raised"]})
            if ex["passed"] and should_absorb:
                bad("C04", "own-cancellation-in-group-not-absorbed", {"level": i})
            if (not ex["passed"]) and not should_absorb:
                bad("C04", "foreign-cancellation-in-group-absorbed", {"level": i})
            if bool(ex["caught"]) != (not ex["passed"]):
                bad("C04", "cancelled_caught-wrong", {"level": i, "caught": ex["caught"], "passed": ex["passed"]})
            cov.hit("cancellation-filtered-out-of-exception-group", not ex["passed"])
        else:
            if ex["caught"]:
                bad("C04", "cancelled_caught-without-cancellation", {"level": i})
    # ---- residue (C05) -----------------------------------------------------------------------------------
    if exits:
        outer = [e for e in exits if e["level"] == 0]
        if outer and not state.get("escaped"):
            if state.get("cancelling_after", 0) != 0:
                bad("C05", "native-cancel-count-not-restored", {"delta": state["cancelling_after"], "exits": [(e["level"], e["cancelling_in"], e["cancelling_out"]) for e in exits]})
        for e in exits:
            # a scope that absorbed restores the count it found on entry (nobody above is effectively cancelled)
            ca, shd = state_at(e.get("pexit", 0))
            if e["raised"] == "cancel" and not e["passed"] and not (e["level"] > 0 and eff(e["level"] - 1, ca, shd)):
                if e["cancelling_out"] != e["cancelling_in"]:
                    bad("C05", "cancelling-count-differs-after-absorbing-scope", {"level": e["level"], "in": e["cancelling_in"], "out": e["cancelling_out"]})
                cov.hit("absorbed-with-pending-uncancel", True)
    for i, sc in scopes.items():
        if "cancel_called_at_exit" in state and sc.cancel_called != state["cancel_called_at_exit"].get(i):
            bad("C05", "scope-cancelled-after-it-was-left", {"level": i})
            bad("C06", "deadline-fired-after-the-scope-was-left", {"level": i})
    res = loop.residue
    if res is not None and (res["ready"] or res["timers"]):
        bad("C05", "loop-not-idle-after-program-end", res)
    if native_after and "native_timeout" in state:
        fired_to, a_, b_ = state["native_timeout"]
        # asyncio.timeout(a) around asyncio.sleep(b) fires iff its own deadline passes first (a == b is a tie)
        if fired_to is not None and a_ != b_ and fired_to != (a_ < b_):
            bad("C05", "native-timeout-misbehaves-after-scopes", {"timeout": a_, "sleep": b_, "fired": fired_to})
        cov.hit("native-timeout-fired", bool(fired_to))
    # ---- deadlines (C06) -------------------------------------------------------------------------------------
    for i in deadlines:
        exi = [e for e in exits if e["level"] == i]
        if not exi or i not in ref_fire:
            continue
        e = exi[0]
        explicit = any(x[2] == "cancel" and x[3] == i for x in timeline)
        changed = any(x[2] == "deadline" and x[3] == i for x in timeline)
        others = any(x[2] == "cancel" and x[3] != i for x in timeline)
        rf, amb = ref_fire[i]
        fired = bool(e["cancel_called"]) and not explicit
        cov.hit("deadline-moved", changed)
        if others or explicit or amb:
            continue  # something else may have ended the block first / a genuine tie: not judged
        if rf is not None and not fired:
            bad("C06", "deadline-missed", {"level": i, "ref_fire_tick": rf, "exit_tick": e.get("texit"), "dl": dl.get(i)})
            bad("C03", "scope-not-cancelled-by-its-deadline", {"level": i, "ref_fire_tick": rf, "exit_tick": e.get("texit")})
        if rf is None and fired:
            bad("C06", "deadline-fired-although-not-due", {"level": i, "exit_tick": e.get("texit"), "dl": dl.get(i)})
        if rf is not None and fired:
            inner_shield = False
            for j in range(i + 1, D):
                if sh0[j]:
                    inner_shield = True
            inter = [o for o in ops if o["out"] == "cancelled" and o["level"] >= i]
            # with several deadline scopes only the one that is due first (strictly) determines the instant
            # of the first interruption
            earlier_other = any(j != i and ref_fire.get(j, (None, False))[0] is not None and ref_fire[j][0] <= rf for j in deadlines) \
                or any(ref_fire.get(j, (None, False))[1] for j in deadlines if j != i)
            if inter and not inner_shield and toggle is None and not earlier_other:
                if inter[0]["tout"] != rf:
                    bad("C06", "deadline-fired-at-wrong-time", {"level": i, "ref": rf, "observed": inter[0]["tout"]})
            cov.hit("deadline-fired", True)
            cov.hit("deadline-in-the-past-at-entry", rf == [x for x in timeline if x[2] == "enter" and x[3] == i][0][1] and not changed)
        if rf is not None and fired:
            # never missed also means: delivered.  An operation entered strictly after the tick at which the deadline fired,
            # with no shield between it and this scope, cannot complete normally
            for o in ops:
                if o["level"] < i or o["out"] is None or o["tin"] <= rf:
                    continue
                _ca, shd_ = state_at(o["pin"])
                if any(shd_.get(j) for j in range(i + 1, o["level"] + 1)):
                    continue
                if o["out"] != "cancelled":
                    bad("C06", "operation-completed-in-scope-whose-deadline-had-fired", {"deadline_level": i, "fired_at": rf, "op": (o["level"], o["which"]), "entered_at": o["tin"]})
                cov.hit("operation-after-deadline-fired-interrupted", o["out"] == "cancelled")
        if helper in ("move_on_after", "move_on_at") and i == D - 1:
            if bool(e["caught"]) != bool(fired and e["raised"] == "cancel" and not e["passed"]):
                bad("C06", "move_on-cancelled_caught-wrong", {"caught": e["caught"], "fired": fired})
        # (the statement's proviso excludes a deadline reassigned AFTER it has fired; reassignments before that count)
        nb_, nall_ = state.get("changes_before_fire", {}).get(i, (0, 0))
        changed_after_fire = rf is not None and nall_ > nb_
        if helper in ("fail_after", "fail_at") and i == D - 1 and not changed_after_fire:
            if bool(e["timeout_error"]) != bool(fired and e["raised"] == "cancel" and not e["passed"]):
                bad("C06", "fail-helper-timeouterror-wrong", {"timeout_error": e["timeout_error"], "fired": fired, "passed": e["passed"]})
            cov.hit("fail-helper-raised-timeouterror", e["timeout_error"])
    # current_effective_deadline() sampled at every operation entry against the closed form
    for o in ops:
        if "eds" in o:
            got, flags = o["eds"]
            want = math.inf
            for (cc, shd, dd) in flags:  # from the operation's level outwards
                want = min(want, dd)
                if cc:
                    want = -math.inf
                    break
                if shd:
                    break
            if got != want:
                bad("C06", "current_effective_deadline-wrong", {"got": got, "want": want, "chain": flags})
    chk(not viol, viol[0][0] if viol else "", viol[:3])
