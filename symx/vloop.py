"""VLoop: the stdlib's own BaseEventLoop logic (call_soon, call_at, timer heap, _run_once)
on a virtual clock.  Only the selector, the clock and the self-pipe are stubbed.

The clock is an int (possibly symbolic); ``_clock_resolution = 1`` so that a timer fires
in the first cycle whose clock is >= its ``when``.
"""
from __future__ import annotations

import asyncio
from asyncio import base_events, events

STUBS = [
    "selector.select(timeout): returns no I/O events and advances the virtual clock by timeout; "
    "timeout None with nothing scheduled => Deadlock",
    "loop.time(): the virtual clock (int ticks, may be symbolic)",
    "loop._clock_resolution = 1 tick",
    "VTask.__repr__: constant (task repr is formatted into cancel reasons; formatting is not a subject)",
    "VTask.__hash__: creation sequence number (deterministic set iteration order between path replays)",
    "_write_to_self/_process_events: no-ops (no self-pipe, no I/O)",
]


class Deadlock(Exception):
    """Nothing ready, nothing scheduled, main task pending."""


class CycleBudget(Exception):
    """The loop kept cycling beyond the stated budget (livelock / busy callback)."""


class _Sel:
    def __init__(self, loop):
        self.loop = loop

    def select(self, timeout=None):
        if timeout is None:
            raise Deadlock()
        if timeout > 0:
            self.loop._vtime = self.loop._vtime + timeout
        return []

    def close(self):
        pass


class VTask(asyncio.Task):
    _vseq = 0

    def __init__(self, coro, *, loop=None, name=None, context=None, eager_start=False):
        VTask._vseq += 1
        self._vid = VTask._vseq
        if eager_start:
            super().__init__(coro, loop=loop, name=name, context=context, eager_start=True)
        else:
            super().__init__(coro, loop=loop, name=name, context=context)

    def __repr__(self):
        return "<VTask %s>" % self.get_name()

    def __hash__(self):
        return self._vid


class VLoop(base_events.BaseEventLoop):
    def __init__(self, eager: bool = False):
        super().__init__()
        self._vtime = 0
        self._selector = _Sel(self)
        self._clock_resolution = 1
        self.cycles = 0
        self.cycle_ticks: list = []
        self.steered = None
        self.between: list = []
        self._max_cycles = 300
        self.errors: list = []
        self.set_exception_handler(self._on_exc)
        self.eager = eager
        VTask._vseq = 0
        if eager:
            self.set_task_factory(asyncio.create_eager_task_factory(VTask))

    def create_task(self, coro, *, name=None, context=None):
        if self.eager:
            return super().create_task(coro, name=name, context=context)
        return VTask(coro, loop=self, name=name, context=context)

    def _on_exc(self, loop, ctx):
        exc = ctx.get("exception")
        if exc is not None and not isinstance(exc, Exception):
            if self.steered is None:
                self.steered = exc
        else:
            self.errors.append((ctx.get("message"), exc))

    def time(self):
        return self._vtime

    def __repr__(self):
        return "<VLoop>"

    def _process_events(self, evs):
        pass

    def _write_to_self(self):
        pass

    # ---- environment actions -------------------------------------------------------
    def env_at(self, t, j, fn, *args):
        """Run ``fn(*args)`` at tick ``t`` after ``j`` further loop cycles (both may be symbolic)."""

        def fire(k=0):
            if k < j:
                self.call_soon(fire, k + 1)
                return
            fn(*args)

        return self.call_at(t, fire)

    def env_between(self, t, j, fn, *args):
        """Like env_at, but ``fn`` runs BETWEEN two loop cycles (not as a loop callback), so that it may itself
        keep the loop cycling through ``pump_until`` -- a foreign thread that blocks on the loop."""

        def enqueue():
            self.between.append((fn, args))

        return self.env_at(t, j, enqueue)

    def _cycle(self):
        if not self._ready and not self._scheduled:
            raise Deadlock()
        self._run_once()
        if self.steered is not None:
            raise self.steered
        self.cycle_ticks.append(self._vtime)
        self.cycles += 1
        if self.cycles > self._max_cycles:
            raise CycleBudget(self.cycles)
        while self.between:
            fn, args = self.between.pop(0)
            fn(*args)

    def pump_until(self, pred):
        """Keep the loop cycling until ``pred()`` holds: the caller plays a foreign thread that blocks while the
        event loop thread runs on.  Only legal between cycles (from an env_between action)."""
        while not pred():
            self._cycle()

    # ---- driver -------------------------------------------------------------------------
    def run(self, coro, max_cycles: int = 300, drain_cycles: int = 0):
        events._set_running_loop(self)
        self.residue = None
        import threading

        self._thread_id = threading.get_ident()  # is_running() is True: needed for eager task start (asyncio checks it)
        try:
            task = self.create_task(coro)
            self._max_cycles = max_cycles
            while not task.done():
                self._cycle()
            if drain_cycles:
                # after the program ended: is anything still alive in the loop?
                n = 0
                while (self._ready or self._scheduled) and n < drain_cycles:
                    try:
                        self._run_once()
                    except Deadlock:
                        break  # only cancelled timers were left: the loop is idle
                    n += 1
                    if self.steered is not None:
                        raise self.steered
                live_timers = [h for h in self._scheduled if not h._cancelled]
                self.residue = {
                    "drained_cycles": n,
                    "ready": len(self._ready),
                    "timers": len(live_timers),
                }
            return task.result()
        finally:
            events._set_running_loop(None)
            self._thread_id = None
            self._ready.clear()
            self._scheduled.clear()
            self.close()


def run(coro, eager: bool = False, **kw):
    return VLoop(eager=eager).run(coro, **kw)
