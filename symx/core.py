"""symx core: exhaustive symbolic path driver on top of CrossHair's StateSpace.

One *unit* = one exploration root (RootNode).  A unit is a harness function
``fn(sym, cov, **params)`` that builds its inputs through ``sym`` (symbolic under
exploration, concrete under replay), runs REAL anyio code and checks an oracle with
``chk(...)``.  ``explore()`` executes every feasible path of the harness; z3 decides
each branch on a symbolic value.  See DESIGN.md section 1.
"""
from __future__ import annotations

import collections
import hashlib
import json
import os
import random
import sys
import time
import traceback
from typing import Any, Callable

import z3

import crosshair.core_and_libs  # noqa: F401  (registers the patches)
import crosshair.statespace as _ss
import crosshair.util as _cu
from crosshair.condition_parser import condition_parser
from crosshair.core import ExceptionFilter, Patched, deep_realize, proxy_for_type
from crosshair.libimpl.builtinslib import (
    ModelingDirector,
    RealBasedSymbolicFloat,
    SymbolicBool,
    SymbolicInt,
)
from crosshair.options import AnalysisKind
from crosshair.statespace import (
    CallAnalysis,
    RootNode,
    StateSpace,
    StateSpaceContext,
    VerificationStatus,
    context_statespace,
)
from crosshair.tracers import COMPOSITE_TRACER, NoTracing, ResumedTracing
from crosshair.util import IgnoreAttempt, NotDeterministic, UnexploredPath

# CrossHair patches weakref.ref.__call__ to run a full gc.collect() on EVERY dereference (to make dead
# referents deterministic).  anyio dereferences weak references constantly (_task_states, all_tasks()), which
# made that the dominant cost of a path.  We drop the patch and run a full collection every 25 paths instead
# (asyncio.all_tasks() filters by loop and _task_states is keyed by identity, so garbage of earlier paths is inert).
import gc as _gc
import weakref as _weakref

from crosshair.core import _PATCH_REGISTRATIONS as _PATCHES

_PATCHES.pop(_weakref.ref.__call__, None)

# --------------------------------------------------------------------------------------
# solver accounting
# --------------------------------------------------------------------------------------
Z3STAT = {"checks": 0, "time_s": 0.0, "unknown": 0}
_orig_is_sat = _ss.solver_is_sat


def _counted_is_sat(solver, *exprs):
    t = time.perf_counter()
    try:
        return _orig_is_sat(solver, *exprs)
    except _cu.UnknownSatisfiability:
        Z3STAT["unknown"] += 1
        raise
    finally:
        Z3STAT["checks"] += 1
        Z3STAT["time_s"] += time.perf_counter() - t


_ss.solver_is_sat = _counted_is_sat

# --------------------------------------------------------------------------------------
# control-exception hygiene: remember every CrossHair steering exception created during
# a path so that one swallowed by asyncio / anyio still decides the path's status.
# --------------------------------------------------------------------------------------
_CONTROL: list[BaseException] = []
_orig_cfe_init = _cu.ControlFlowException.__init__
_orig_nd_init = _cu.NotDeterministic.__init__


def _cfe_init(self, *a, **k):
    _orig_cfe_init(self, *a, **k)
    _CONTROL.append(self)


def _nd_init(self, *a, **k):
    _orig_nd_init(self, *a, **k)
    _CONTROL.append(self)


_cu.ControlFlowException.__init__ = _cfe_init  # type: ignore[method-assign]
_cu.NotDeterministic.__init__ = _nd_init  # type: ignore[method-assign]

# --------------------------------------------------------------------------------------
# measured list of anyio functions executed
# --------------------------------------------------------------------------------------
FUNCS_SEEN: set[str] = set()
_MON_ON = False


def start_function_recorder(prefix: str) -> None:
    global _MON_ON
    if _MON_ON:
        return
    mon = sys.monitoring
    tid = mon.PROFILER_ID
    try:
        mon.use_tool_id(tid, "symx")
    except ValueError:
        return

    def on_start(code, off):
        fn = code.co_filename
        if fn.startswith(prefix):
            FUNCS_SEEN.add(fn[len(prefix):].lstrip("/") + ":" + code.co_qualname)
        return mon.DISABLE

    mon.register_callback(tid, mon.events.PY_START, on_start)
    mon.set_events(tid, mon.events.PY_START)
    _MON_ON = True


# --------------------------------------------------------------------------------------
# harness-facing API
# --------------------------------------------------------------------------------------
class Violation(Exception):
    """Oracle failure.  clause = short stable identifier, detail = free text."""

    def __init__(self, clause: str, detail: Any = ""):
        super().__init__(clause, detail)
        self.clause = clause
        self.detail = detail


class AssumeFailed(Exception):
    pass


def chk(cond: Any, clause: str, detail: Any = "") -> None:
    """Oracle assertion; ``cond`` may be symbolic (the branch is decided by z3)."""
    if not cond:
        raise Violation(clause, detail)


class Cov:
    def __init__(self) -> None:
        self.hits: set[str] = set()

    def hit(self, name: str, cond: Any = True) -> None:
        if cond:
            self.hits.add(name)


class Sym:
    """Symbolic input factory (tracing is on while the harness runs)."""

    symbolic = True

    def __init__(self) -> None:
        self.vars: dict[str, Any] = {}
        self.bounds: dict[str, Any] = {}

    def int(self, name: str, lo: int, hi: int):
        # the z3 constant carries the logical name itself (no per-path counter), so that the same input is the
        # same constant in every path condition -- needed by the coverage certificate
        assert name not in self.vars, "duplicate input name " + name
        with NoTracing():
            space = context_statespace()
            v = SymbolicInt("in_" + name)
            space.add(v.var >= lo)
            space.add(v.var <= hi)
        self.vars[name] = v
        self.bounds[name] = [lo, hi]
        return v

    def bool(self, name: str):
        assert name not in self.vars, "duplicate input name " + name
        with NoTracing():
            space = context_statespace()
            v = SymbolicBool("in_" + name)
        self.vars[name] = v
        self.bounds[name] = "bool"
        return v

    def bytes(self, name: str, maxlen: int):
        v = proxy_for_type(bytes, name)
        if len(v) > maxlen:
            raise IgnoreAttempt("len bound")
        self.vars[name] = v
        self.bounds[name] = "bytes len<=%d" % maxlen
        return v

    def optint(self, name: str, lo: int, hi: int):
        """None or an int in [lo, hi]."""
        isnone = self.bool(name + ".none")
        v = self.int(name, lo, hi)
        return None if isnone else v

    def assume(self, cond: Any) -> None:
        if not cond:
            raise IgnoreAttempt("assume")

    def note(self, name: str, value: Any) -> None:
        self.vars[name] = value

    def realize(self, v: Any) -> Any:
        """Make a value concrete (one path per value, chosen and enumerated by the solver)."""
        return deep_realize(v)

    def untraced(self):
        """Context in which CrossHair does not intercept calls (for concrete calls into C helpers that
        CrossHair would otherwise replace by its own models, e.g. codecs)."""
        return NoTracing()


class Conc:
    """Concrete provider used for replay (no CrossHair involved)."""

    symbolic = False

    def __init__(self, values: dict[str, Any]):
        self.values = values
        self.vars: dict[str, Any] = {}
        self.bounds: dict[str, Any] = {}

    def _get(self, name: str):
        v = self.values[name]
        if isinstance(v, dict) and "__bytes__" in v:
            v = bytes.fromhex(v["__bytes__"])
        self.vars[name] = v
        return v

    def int(self, name, lo, hi):
        v = self._get(name)
        if not (lo <= v <= hi):
            raise AssumeFailed(name)
        return v

    def bool(self, name):
        return bool(self._get(name))

    def bytes(self, name, maxlen):
        v = self._get(name)
        if len(v) > maxlen:
            raise AssumeFailed(name)
        return v

    def optint(self, name, lo, hi):
        isnone = self.bool(name + ".none")
        v = self.int(name, lo, hi)
        return None if isnone else v

    def assume(self, cond):
        if not cond:
            raise AssumeFailed("assume")

    def note(self, name, value):
        self.vars[name] = value

    def realize(self, v):
        return v

    def untraced(self):
        import contextlib

        return contextlib.nullcontext()


def jsonable(v: Any) -> Any:
    if isinstance(v, bool) or v is None or isinstance(v, (int, str)):
        return v
    if isinstance(v, float):
        return v if v == v and abs(v) != float("inf") else repr(v)
    if isinstance(v, (bytes, bytearray)):
        return {"__bytes__": bytes(v).hex()}
    if isinstance(v, (list, tuple)):
        return [jsonable(x) for x in v]
    if isinstance(v, dict):
        return {str(k): jsonable(x) for k, x in v.items()}
    return repr(v)


# --------------------------------------------------------------------------------------
# exploration
# --------------------------------------------------------------------------------------
def _fmt_exc(exc: BaseException, stack) -> str:
    tail = ""
    try:
        if stack:
            tail = "".join(traceback.format_list(list(stack)[-5:]))
    except Exception:
        pass
    return f"{type(exc).__name__}: {exc}\n{tail}"[:1500]


def _exc_clause(e: BaseException) -> str:
    """An exception raised by the code under test is a violation ('unexpected-exception:<Type>').  One raised
    directly by harness code -- typically an AttributeError on a private attribute that a refactoring renamed --
    says that the harness no longer fits the code: 'harness-error:<Type>' (exit 3, never a VIOLATION)."""
    tb = e.__traceback__
    last = None
    while tb is not None:
        last = tb.tb_frame.f_code.co_filename
        tb = tb.tb_next
    if last and os.sep + os.path.join("symx", "harness") + os.sep in last and isinstance(e, (AttributeError, TypeError, NameError, KeyError, ImportError)):
        return "harness-error:" + type(e).__name__
    return "unexpected-exception:" + type(e).__name__


def run_concrete(fn: Callable, params: dict, values: dict) -> dict:
    """Replay: run the harness on plain CPython with concrete inputs."""
    sym = Conc(values)
    cov = Cov()
    try:
        fn(sym, cov, **params)
    except AssumeFailed as e:
        return {"outcome": "assume-failed", "detail": str(e), "cov": sorted(cov.hits)}
    except Violation as v:
        return {
            "outcome": "violation",
            "clause": v.clause,
            "detail": jsonable(v.detail),
            "cov": sorted(cov.hits),
        }
    except (KeyboardInterrupt, SystemExit, MemoryError):
        raise
    except BaseException as e:  # unexpected exception = oracle failure as well
        return {
            "outcome": "violation",
            "clause": _exc_clause(e),
            "detail": "".join(traceback.format_exception(e))[-1500:],
            "cov": sorted(cov.hits),
        }
    return {"outcome": "ok", "cov": sorted(cov.hits)}


def explore(
    fn: Callable,
    params: dict,
    *,
    budget_s: float = 60.0,
    per_path_s: float = 20.0,
    max_paths: int = 1_000_000,
    seed: int = 0,
    n_samples: int = 4,
    n_validate: int = 3,
    max_refuted: int = 12,
    certify: bool = False,
) -> dict:
    """Explore every feasible path of ``fn(sym, cov, **params)``.

    Returns a result dict (JSON-able).  The unit is *decided* iff
    ``exhausted and unknown == 0``.
    """
    root = RootNode()
    try:
        root._random = random.Random(seed)  # path-selection order only
    except Exception:
        pass
    stats: collections.Counter = collections.Counter()
    cov_counts: collections.Counter = collections.Counter()
    refuted: list[dict] = []
    refuted_sigs: collections.Counter = collections.Counter()
    stored_clauses: set = set()
    unknown_samples: list[str] = []
    samples: list[dict] = []
    pcs: list[Any] = []
    declared_names: set[str] = set()
    bounds: dict[str, Any] = {}
    validated = 0
    validate_failures: list[dict] = []
    t0 = time.process_time()
    w0 = time.perf_counter()
    z0 = dict(Z3STAT)
    exhausted = False
    decisions = 0
    paths = 0
    stop_reason = "max_paths"
    rng = random.Random(seed + 1)
    for i in range(max_paths):
        now = time.process_time()
        if now - t0 > budget_s:
            stop_reason = "budget"
            break
        paths += 1
        space = StateSpace(
            execution_deadline=now + per_path_s,
            model_check_timeout=per_path_s / 2,
            search_root=root,
        )
        del _CONTROL[:]
        if i % 25 == 0:
            _gc.collect()  # keep dead tasks / loops of earlier paths from piling up in weak containers
        model: dict | None = None
        status = None
        viol: tuple[str, Any] | None = None
        cov = Cov()
        want_model = False
        pc_now = None
        with condition_parser(
            [AnalysisKind.PEP316]
        ), Patched(), COMPOSITE_TRACER, NoTracing(), StateSpaceContext(space):
            sym = Sym()
            try:
                space.extra(ModelingDirector).global_representations[
                    float
                ] = RealBasedSymbolicFloat
                with ExceptionFilter() as ef, ResumedTracing():
                    try:
                        fn(sym, cov, **params)
                    except Violation as v:
                        viol = (v.clause, v.detail)
                    except (_cu.ControlFlowException, NotDeterministic):
                        raise
                    except (KeyboardInterrupt, SystemExit, MemoryError):
                        raise
                    except Exception:
                        raise  # classified by ExceptionFilter below
                    except BaseException as e:  # e.g. CancelledError escaping the program
                        viol = ("unexpected-exception:" + type(e).__name__, "".join(traceback.format_exception(e))[-1200:])
                # a steering exception that did not reach us decides the path
                ctrl = [c for c in _CONTROL]
                if ef.user_exc is not None and isinstance(
                    ef.user_exc[0], NotDeterministic
                ):
                    raise NotDeterministic
                for c in ctrl:
                    if isinstance(c, NotDeterministic):
                        raise NotDeterministic
                for c in ctrl:
                    if isinstance(c, UnexploredPath):
                        raise type(c)(*c.args)
                for c in ctrl:
                    if isinstance(c, IgnoreAttempt):
                        raise IgnoreAttempt(*c.args)
                for c in ctrl:
                    if isinstance(c, _cu.CrossHairInternal):
                        raise _cu.UnknownSatisfiability("internal: %s" % (c,))
                if ef.ignore:
                    status = None
                    stats["ignored"] += 1
                elif ef.user_exc is not None:
                    exc, stack = ef.user_exc
                    viol = (
                        "unexpected-exception:" + type(exc).__name__,
                        _fmt_exc(exc, stack),
                    )
                    status = VerificationStatus.REFUTED
                elif viol is not None:
                    status = VerificationStatus.REFUTED
                else:
                    status = VerificationStatus.CONFIRMED
                if certify:
                    pc_now = z3.And(*space.solver.assertions())
                if status is not None:
                    want_model = (
                        status == VerificationStatus.REFUTED
                        # a bounded number of counterexamples, but at least one per distinct clause
                        and (len(refuted) < max_refuted or (viol is not None and viol[0] not in stored_clauses))
                    ) or (
                        status == VerificationStatus.CONFIRMED
                        and (len(samples) < n_samples or rng.random() < 0.002)
                    )
                    decisions += len(space.choices_made)
                    bounds.update(sym.bounds)
                    if want_model:
                        with ResumedTracing():
                            space.detach_path()
                            model = {
                                k: jsonable(deep_realize(v))
                                for k, v in sym.vars.items()
                            }
                            if viol is not None:
                                viol = (viol[0], jsonable(deep_realize(viol[1])))
            except IgnoreAttempt:
                status = None
                stats["ignored"] += 1
            except UnexploredPath as e:
                status = VerificationStatus.UNKNOWN
                stats["unknown:" + type(e).__name__] += 1
                if len(unknown_samples) < 3:
                    unknown_samples.append(
                        "".join(traceback.format_exception(e))[-1200:]
                    )
            except NotDeterministic as e:
                status = VerificationStatus.UNKNOWN
                stats["unknown:NotDeterministic"] += 1
                if len(unknown_samples) < 3:
                    unknown_samples.append("NotDeterministic")
                # the tree below this point is unreliable; CrossHair aborts the root
                stats[str(status)] += 1
                stop_reason = "not-deterministic"
                try:
                    space.detach_path(e)
                    space.bubble_status(CallAnalysis(status))
                except BaseException:
                    pass
                break
            stats[str(status)] += 1
            if certify and status != VerificationStatus.UNKNOWN:
                # every decided path class (also those ending in a false assumption)
                pcs.append(pc_now if pc_now is not None else z3.And(*space.solver.assertions()))
                for k, v in sym.vars.items():
                    if hasattr(v, "var"):
                        declared_names.add(v.var.decl().name())
            try:
                _a, exhausted = space.bubble_status(CallAnalysis(status))
            except BaseException as e:  # pragma: no cover
                stats["bubble-error:" + type(e).__name__] += 1
                stop_reason = "bubble-error"
                break
        # ---- outside CrossHair --------------------------------------------------
        if status == VerificationStatus.CONFIRMED:
            for h in cov.hits:
                cov_counts[h] += 1
            if model is not None:
                samples.append({"inputs": model, "cov": sorted(cov.hits)})
                if validated < n_validate:
                    r = run_concrete(fn, params, model)
                    validated += 1
                    if r["outcome"] != "ok":
                        validate_failures.append({"inputs": model, "concrete": r})
        elif status == VerificationStatus.REFUTED:
            sig = viol[0] if viol else "?"
            refuted_sigs[sig] += 1
            if model is not None:
                refuted.append(
                    {"inputs": model, "clause": viol[0], "detail": viol[1]}
                )
                stored_clauses.add(viol[0])
        if exhausted:
            stop_reason = "exhausted"
            break
    res = {
        "params": jsonable(params),
        "bounds": jsonable(bounds),
        "paths": paths,
        "confirmed": stats.get(str(VerificationStatus.CONFIRMED), 0),
        "refuted_paths": stats.get(str(VerificationStatus.REFUTED), 0),
        "ignored": stats.get("ignored", 0),
        "unknown": sum(v for k, v in stats.items() if k.startswith("unknown:")),
        "unknown_kinds": {k: v for k, v in stats.items() if k.startswith("unknown:")},
        "unknown_samples": unknown_samples,
        "exhausted": bool(exhausted),
        "stop_reason": stop_reason,
        "refuted": refuted,
        "refuted_clauses": dict(refuted_sigs),
        "cov": dict(cov_counts),
        "samples": samples[: max(n_samples, 6)],
        "decisions": decisions,
        "validated_concretely": validated,
        "validate_failures": validate_failures,
        "z3_checks": Z3STAT["checks"] - z0["checks"],
        "z3_time_s": round(Z3STAT["time_s"] - z0["time_s"], 3),
        "z3_unknown": Z3STAT["unknown"] - z0["unknown"],
        "cpu_s": round(time.process_time() - t0, 2),
        "wall_s": round(time.perf_counter() - w0, 2),
    }
    if certify and exhausted and res["unknown"] == 0:
        res["certificate"] = certify_cover(pcs, declared_names, bounds)
    return res


# --------------------------------------------------------------------------------------
# coverage certificate: the executed path classes cover every input inside the bounds
# --------------------------------------------------------------------------------------
def certify_cover(pcs: list, declared: set[str], bounds: dict) -> dict:
    """Second opinion on "exhausted": the residue  bounds /\\ not(pc_1 \\/ ... \\/ pc_n)  must be unsat
    (z3 and, independently, the cvc5 binary), and sampled pairs pc_i /\\ pc_j must be unsat (the executed
    paths are classes, not overlapping samples).  Only for units whose path conditions mention nothing but
    declared inputs."""
    import subprocess
    import tempfile

    out: dict[str, Any] = {"paths": len(pcs)}
    if not pcs:
        out["status"] = "skipped: no paths"
        return out
    if len(pcs) > 1500:
        out["status"] = "skipped: more than 1500 paths"
        return out
    consts: dict[str, Any] = {}
    stack = list(pcs)
    seen: set[int] = set()
    while stack:
        x = stack.pop()
        if x.get_id() in seen:
            continue
        seen.add(x.get_id())
        if z3.is_const(x) and x.decl().kind() == z3.Z3_OP_UNINTERPRETED:
            consts[x.decl().name()] = x
        stack.extend(x.children())
    extra = set(consts) - declared
    if extra:
        out["status"] = "skipped: path conditions mention fresh symbols"
        out["fresh"] = sorted(extra)[:5]
        return out
    # restate the bounds of the declared integer inputs (z3 constant "in_<name>")
    bnd = []
    for nm, c in consts.items():
        base = nm[3:] if nm.startswith("in_") else None
        if base in bounds and isinstance(bounds[base], list) and z3.is_int(c):
            lo, hi = bounds[base]
            bnd += [c >= lo, c <= hi]
    t = time.perf_counter()
    s = z3.Solver()
    s.set("timeout", 120_000)
    s.add(*bnd)
    s.add(z3.Not(z3.Or(*pcs)))
    out["z3_residue"] = str(s.check())
    out["z3_s"] = round(time.perf_counter() - t, 2)
    try:
        with tempfile.NamedTemporaryFile("w", suffix=".smt2", delete=False) as f:
            f.write("(set-logic ALL)\n" + s.to_smt2())
            path = f.name
        t = time.perf_counter()
        pr = subprocess.run(["cvc5", "--tlimit=120000", path], capture_output=True, text=True, timeout=150)
        out["cvc5_residue"] = (pr.stdout.strip().splitlines() or ["?"])[0]
        out["cvc5_s"] = round(time.perf_counter() - t, 2)
        if "(error" in pr.stdout or "(error" in pr.stderr:
            out["cvc5_residue"] = "error"  # inconclusive, never a pass
        os.unlink(path)
    except Exception as e:
        out["cvc5_residue"] = "unavailable: %s" % type(e).__name__
    n = len(pcs)
    pairs = [(i, j) for i in range(n) for j in range(i)]
    random.Random(0).shuffle(pairs)
    pairs = pairs[:200]
    overl = 0
    for i, j in pairs:
        s2 = z3.Solver()
        s2.set("timeout", 5000)
        if s2.check(z3.And(pcs[i], pcs[j])) != z3.unsat:
            overl += 1
    out["pairs_checked"] = len(pairs)
    out["pairs_overlapping"] = overl
    if out["z3_residue"] == "unsat" and overl == 0:
        out["status"] = "certified" if out.get("cvc5_residue") == "unsat" else "certified-z3-only"
    else:
        out["status"] = "NOT-CERTIFIED"
    return out


def replay_id(harness: str, unit: str, inputs: dict) -> str:
    h = hashlib.sha1(
        json.dumps([harness, unit, inputs], sort_keys=True).encode()
    ).hexdigest()[:10]
    return h
