"""Worker process: explores ONE unit of one harness module and writes a JSON result."""
from __future__ import annotations

import importlib
import json
import os
import resource
import sys
import time
import traceback


def main(argv: list[str]) -> int:
    modname, unit_name, tier, seed, outfile = argv[:5]
    seed = int(seed)
    mem = int(os.environ.get("SYMX_MEM_GB", "6")) << 30
    try:
        resource.setrlimit(resource.RLIMIT_AS, (mem, mem))
    except Exception:
        pass
    sys.setrecursionlimit(5000)
    t0 = time.perf_counter()
    res: dict = {"unit": unit_name, "module": modname}
    try:
        from . import core

        src = os.environ.get("SYMX_SRC", "/repo/src")
        core.start_function_recorder(os.path.join(src, "anyio"))
        mod = importlib.import_module(modname)
        units = {u["name"]: u for u in mod.units(tier)}
        u = units[unit_name]
        fn = u["fn"]
        kw = dict(
            budget_s=u.get("budget_s", 60),
            per_path_s=u.get("per_path_s", 20),
            seed=seed,
            certify=u.get("certify", True),
            n_samples=u.get("n_samples", 3),
            n_validate=u.get("n_validate", 2),
        )
        r = core.explore(fn, u.get("params", {}), **kw)
        # replay every stored counterexample on plain CPython (no CrossHair)
        for cex in r["refuted"]:
            cex["replay"] = core.run_concrete(fn, u.get("params", {}), cex["inputs"])
        res.update(r)
        res["functions"] = sorted(f for f in core.FUNCS_SEEN if not f.endswith(":<module>"))
        res["ok"] = True
    except MemoryError:
        res["ok"] = False
        res["error"] = "MemoryError"
    except BaseException as e:  # noqa
        res["ok"] = False
        res["error"] = "".join(traceback.format_exception(e))[-3000:]
    res["worker_wall_s"] = round(time.perf_counter() - t0, 2)
    tmp = outfile + ".tmp"
    with open(tmp, "w") as f:
        json.dump(res, f)
    os.replace(tmp, outfile)
    return 0


if __name__ == "__main__":
    sys.exit(main(sys.argv[1:]))
