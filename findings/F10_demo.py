"""F10 (C05): Python 3.12 + asyncio.eager_task_factory.  A task created with asyncio.create_task() starts eagerly,
i.e. INSIDE the step of the task that created it.  If it cancels its creator's cancel scope right away, AnyIO's
delivery sees current_task() == the eager child, takes the creator for "some other task" and calls Task.cancel()
on it while it is running: asyncio sets Task._must_cancel.  If the creator then leaves the scope without another
checkpoint, __exit__ brings Task.cancelling() back to 0 but (on 3.12) nothing clears _must_cancel: the first await
AFTER the scope raises CancelledError although no scope is cancelled any more.
Run: PYTHONPATH=/repo/src /venv/bin/python findings/F10_demo.py"""
import asyncio

from anyio import CancelScope


async def main():
    asyncio.get_running_loop().set_task_factory(asyncio.eager_task_factory)
    with CancelScope() as scope:

        async def child():
            scope.cancel()

        asyncio.create_task(child())  # runs to completion right here
        assert scope.cancel_called
        # no checkpoint between the cancel and the end of the block
    assert asyncio.current_task().cancelling() == 0
    try:
        await asyncio.sleep(0)
    except asyncio.CancelledError:
        raise AssertionError("first await after the cancel scope raised CancelledError") from None
    print("no residue")


asyncio.run(main())
