"""F8 (C01/C15): a task started in a task group while the host is in the exit checkpoint of an (otherwise
empty) group is not joined: the `async with` block finishes while the task is still running.
Run: PYTHONPATH=/repo/src /venv/bin/python findings/F8_demo.py"""
import asyncio

import anyio


async def main():
    log = []

    async def late():
        log.append("late started")
        await anyio.sleep(0.05)
        log.append("late finished")

    loop = asyncio.get_running_loop()
    async with anyio.create_task_group() as tg:
        # e.g. a BlockingPortal call arriving from another thread, or any holder of `tg`:
        loop.call_soon(lambda: tg.start_soon(late))
    log.append("group exited")
    await anyio.sleep(0.1)
    print(log)
    assert log.index("late finished") < log.index("group exited"), "child outlived its task group"


asyncio.run(main())
