"""F9 (C03): a task started in an already-cancelled task group while the group's cancellation delivery has gone
idle (the host sits in a shielded scope, no other member task) is never cancelled until something else restarts
the delivery -- it stays blocked in a cancelled scope.
Run: PYTHONPATH=/repo/src /venv/bin/python findings/F9_demo.py"""
import asyncio

import anyio


async def main():
    log = []

    async def child():
        try:
            await anyio.sleep(3600)
        except asyncio.CancelledError:
            log.append("child cancelled")
            raise

    async with anyio.create_task_group() as tg:
        tg.cancel_scope.cancel()
        with anyio.CancelScope(shield=True):
            await anyio.sleep(0.01)  # the group's delivery callback finds nobody to cancel and stops
            tg.start_soon(child)  # a task newly created inside the cancelled scope
            await anyio.sleep(0.2)
            log.append("host still shielded")
    print(log)
    assert log[0] == "child cancelled", "the new task stayed blocked in a cancelled scope"


asyncio.run(main())
