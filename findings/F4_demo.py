"""F4 (C12): an item accepted by send_nowait() is lost when the receiver it was handed to is cancelled
natively (Task.cancel(), e.g. asyncio.timeout/wait_for) in the same event-loop cycle.
Run: PYTHONPATH=/repo/src /venv/bin/python findings/F4_demo.py   (plain asyncio loop, public API only)"""
import asyncio

import anyio


async def main():
    tx, rx = anyio.create_memory_object_stream(0)
    got = []

    async def receiver():
        got.append(await rx.receive())

    t = asyncio.create_task(receiver())
    await anyio.wait_all_tasks_blocked()
    tx.send_nowait("item")  # completes successfully: handed to the blocked receiver
    t.cancel()  # native cancellation in the same cycle, before the receiver resumed
    try:
        await t
    except asyncio.CancelledError:
        pass
    # the send completed, the receive was cancelled: the item must still be obtainable
    try:
        got.append(rx.receive_nowait())
    except anyio.WouldBlock:
        pass
    print("received:", got)
    assert got == ["item"], "item accepted by send_nowait() was lost"


asyncio.run(main())
