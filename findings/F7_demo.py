"""F7 (C11): native Task.cancel() while a notified waiter re-acquires the lock makes Condition.wait()
raise CancelledError WITHOUT holding the lock.
Run: PYTHONPATH=/repo/src /venv/bin/python findings/F7_demo.py"""
import asyncio

import anyio


async def main():
    cond = anyio.Condition()
    seen = {}

    async def waiter():
        await cond.acquire()
        try:
            await cond.wait()
        except asyncio.CancelledError:
            st = cond.statistics().lock_statistics
            seen["holds_lock_on_raise"] = st.locked and st.owner is not None and st.owner.id == id(asyncio.current_task())
            raise

    t = asyncio.create_task(waiter())
    await anyio.wait_all_tasks_blocked()
    async with cond:
        cond.notify()
        await anyio.sleep(0.01)  # the notified waiter is now queued on the lock
        t.cancel()  # native cancellation: not stopped by the shielded re-acquire
        await anyio.sleep(0.01)
    try:
        await t
    except asyncio.CancelledError:
        pass
    print(seen)
    assert seen.get("holds_lock_on_raise"), "wait() raised without holding the lock"


asyncio.run(main())
