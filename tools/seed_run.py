#!/usr/bin/env python3
"""Run the registered checks against the seeded changes in /verif/seeded/* WITHOUT touching /repo or
/verif/evidence: each seed is applied in a scratch worktree of /repo HEAD (removed afterwards), the owning
property's check runs with SYMX_SRC pointing at it, evidence and replays go to a temp dir.

usage: seed_run.py [name ...] [--tier quick|thorough]
Records exit status and violated clauses in seeded/<name>/meta.json ("runs", "detected_by").
"""
import glob
import json
import os
import shutil
import subprocess
import sys
import tempfile

argv = sys.argv[1:]
tier = "quick"
if "--tier" in argv:
    i = argv.index("--tier")
    tier = argv[i + 1]
    del argv[i:i + 2]
names = argv or sorted(d for d in os.listdir("/verif/seeded") if os.path.isdir(os.path.join("/verif/seeded", d)))
head = subprocess.run("git -C /repo rev-parse --short HEAD", shell=True, capture_output=True, text=True).stdout.strip()
summary = []
for name in names:
    d = os.path.join("/verif/seeded", name)
    meta = json.load(open(os.path.join(d, "meta.json")))
    prop = meta["property"]
    wt = tempfile.mkdtemp(prefix="sr-", dir="/tmp")
    os.rmdir(wt)
    tmp = tempfile.mkdtemp(prefix="srout-", dir="/tmp")
    try:
        r = subprocess.run("git -C /repo worktree add -q --detach %s HEAD && git -C %s apply %s/patch.diff" % (wt, wt, d), shell=True, capture_output=True, text=True)
        if r.returncode != 0:
            print(name, "PATCH DOES NOT APPLY", r.stderr[:200])
            meta.setdefault("runs", {})["%s-%s" % (prop, tier)] = {"check": "./check %s %s" % (prop, tier), "exit": None, "clauses": {}, "summary": "patch does not apply on %s" % head}
            summary.append((name, "patch does not apply"))
        else:
            env = dict(os.environ, SYMX_SRC=os.path.join(wt, "src"), SYMX_EVIDENCE_DIR=tmp, SYMX_REPLAY_DIR=tmp)
            r = subprocess.run(["./check", prop, tier], cwd="/verif", env=env, capture_output=True, text=True)
            clauses = {}
            for f in glob.glob(os.path.join(tmp, "%s-*.json" % prop)):
                v = json.load(open(f))
                k = "%s/%s" % (v["harness"], v["clause"])
                clauses.setdefault(k, {"count": 0, "example_unit": v["unit"], "example_inputs": v["inputs"]})["count"] += 1
            headline = r.stdout.strip().splitlines()[0] if r.stdout.strip() else ""
            det = {"check": "./check %s %s" % (prop, tier), "exit": r.returncode, "clauses": clauses, "summary": headline, "repo_head": head}
            meta.setdefault("runs", {})["%s-%s" % (prop, tier)] = det
            if r.returncode == 1:
                meta["detected_by"] = det["check"]
            print(name, prop, tier, "exit", r.returncode, list(clauses)[:4])
            summary.append((name, prop, r.returncode))
    finally:
        subprocess.run("git -C /repo worktree remove --force %s" % wt, shell=True, capture_output=True)
        shutil.rmtree(wt, ignore_errors=True)
        shutil.rmtree(tmp, ignore_errors=True)
    json.dump(meta, open(os.path.join(d, "meta.json"), "w"), indent=1)
print(summary)
