#!/usr/bin/env python3
"""Run the registered checks against the seeded changes in /verif/seeded/*.

usage: seed_run.py [name ...] [--tier quick|thorough] [--props C09,C10]

For each seed: git -C /repo apply patch.diff; ./check <property> <tier>; git -C /repo checkout -- . ;
records exit status and the violated clauses in seeded/<name>/meta.json ("detected_by").
"""
import glob
import json
import os
import subprocess
import sys

args = [a for a in sys.argv[1:] if not a.startswith("--")]
tier = "quick"
extra_props = None
for i, a in enumerate(sys.argv):
    if a == "--tier":
        tier = sys.argv[i + 1]
        args.remove(tier) if tier in args else None
    if a == "--props":
        extra_props = sys.argv[i + 1].split(",")
        args.remove(sys.argv[i + 1]) if sys.argv[i + 1] in args else None
names = args or sorted(os.listdir("/verif/seeded"))
assert subprocess.run("git -C /repo status --porcelain", shell=True, capture_output=True, text=True).stdout.strip() == "", "/repo not clean"
summary = []
for name in names:
    d = os.path.join("/verif/seeded", name)
    meta = json.load(open(os.path.join(d, "meta.json")))
    props = extra_props or [meta["property"]]
    r = subprocess.run("git -C /repo apply %s/patch.diff" % d, shell=True, capture_output=True, text=True)
    if r.returncode != 0:
        print(name, "PATCH DOES NOT APPLY", r.stderr[:200])
        summary.append((name, "patch does not apply"))
        continue
    try:
        for prop in props:
            for f in glob.glob("/verif/replays/%s-*.json" % prop):
                os.unlink(f)
            r = subprocess.run("./check %s %s" % (prop, tier), shell=True, capture_output=True, text=True, cwd="/verif")
            clauses = {}
            for f in glob.glob("/verif/replays/%s-*.json" % prop):
                v = json.load(open(f))
                k = "%s/%s" % (v["harness"], v["clause"])
                clauses.setdefault(k, {"count": 0, "example_unit": v["unit"], "example_inputs": v["inputs"]})["count"] += 1
            head = r.stdout.strip().splitlines()[0] if r.stdout.strip() else ""
            det = {"check": "./check %s %s" % (prop, tier), "exit": r.returncode, "clauses": clauses, "summary": head}
            meta.setdefault("runs", {})["%s-%s" % (prop, tier)] = det
            if r.returncode == 1:
                meta["detected_by"] = meta.get("detected_by") or det["check"]
            print(name, prop, tier, "exit", r.returncode, list(clauses)[:4])
            summary.append((name, prop, r.returncode))
    finally:
        subprocess.run("git -C /repo checkout -- .", shell=True)
    json.dump(meta, open(os.path.join(d, "meta.json"), "w"), indent=1)
# restore the evidence of the unchanged tree for the properties we touched
print("NOTE: evidence files of the touched properties were overwritten by runs on mutated trees; re-run the checks on the clean tree before committing.")
print(summary)
