#!/usr/bin/env python3
"""Writes seeded/SUMMARY.md from seeded/*/meta.json."""
import json, os
rows = []
for name in sorted(os.listdir("/verif/seeded")):
    p = os.path.join("/verif/seeded", name, "meta.json")
    if not os.path.exists(p):
        continue
    m = json.load(open(p))
    notes = ""
    np_ = os.path.join("/verif/seeded", name, "notes.md")
    runs = m.get("runs", {})
    det = []
    for k, r in sorted(runs.items()):
        cl = "; ".join("%s (%d)" % (c, v["count"]) for c, v in list(r["clauses"].items())[:3])
        det.append("`%s` exit %s%s" % (r["check"], r["exit"], (": " + cl) if cl else ""))
    rows.append((name, m["property"], m.get("what", m.get("needs", "")), "<br>".join(det) or "not run", m.get("history", "")))
with open("/verif/seeded/SUMMARY.md", "w") as f:
    f.write("# Seeded changes and which check catches them\n\n")
    f.write("Each directory holds `patch.diff` (applies to /repo HEAD with `git apply`), the demonstration written by the sub-agent, its `notes.md`, and `meta.json` "
            "(independent confirmation by `tools/seed_verify.py`, results of `tools/seed_run.py`). Exit 1 = VIOLATION reported.\n\n")
    f.write("| seed | property | change (one line) | result of the owning check(s) | history |\n|---|---|---|---|---|\n")
    for r in rows:
        f.write("| %s | %s | %s | %s | %s |\n" % r)
print(open("/verif/seeded/SUMMARY.md").read()[:3000])
