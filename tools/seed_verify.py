#!/usr/bin/env python3
"""Independently confirm a seeded change produced by a sub-agent, then store it under /verif/seeded/<name>/.

usage: seed_verify.py <property> <agent_out_dir> [<name>]

Confirms, in a fresh scratch worktree of /repo HEAD (removed afterwards):
  1. patch applies; package imports
  2. demo FAILS with the patch, PASSES without it
  3. the pinned test suite (BASELINE.json stable_pass) still passes with the patch
"""
import json
import os
import shutil
import subprocess
import sys
import tempfile

prop, src = sys.argv[1], sys.argv[2]
name = sys.argv[3] if len(sys.argv) > 3 else prop
dst = os.path.join("/verif/seeded", name)
wt = tempfile.mkdtemp(prefix="sv-%s-" % name, dir="/tmp")
os.rmdir(wt)
PY = "/venv/bin/python"


def sh(cmd, **kw):
    return subprocess.run(cmd, shell=True, capture_output=True, text=True, **kw)


def demo_cmd(d):
    if os.path.exists(os.path.join(d, "demo_test.py")):
        return "%s -m pytest -q -p no:cacheprovider -p anyio -x demo_test.py" % PY
    return "%s demo.py" % PY


res = {"property": prop, "name": name}
try:
    r = sh("git -C /repo worktree add -q --detach %s HEAD" % wt)
    assert r.returncode == 0, r.stderr
    res["repo_head"] = sh("git -C /repo rev-parse --short HEAD").stdout.strip()
    patch = os.path.join(src, "patch.diff")
    r = sh("git -C %s apply %s" % (wt, patch))
    res["applies"] = r.returncode == 0
    assert res["applies"], r.stderr
    env = dict(os.environ, PYTHONPATH=os.path.join(wt, "src"), PYTHONDONTWRITEBYTECODE="1")
    r = sh(demo_cmd(src), cwd=src, env=env)
    res["demo_with_patch_rc"] = r.returncode
    res["demo_with_patch_tail"] = (r.stdout + r.stderr)[-600:]
    sh("git -C %s apply -R %s" % (wt, patch))
    r = sh(demo_cmd(src), cwd=src, env=env)
    res["demo_without_patch_rc"] = r.returncode
    res["demo_without_patch_tail"] = (r.stdout + r.stderr)[-300:]
    sh("git -C %s apply %s" % (wt, patch))
    r = sh("%s /verif/tools/baseline_compare.py %s" % (PY, wt))
    res["suite_rc"] = r.returncode
    res["suite_tail"] = r.stdout[-800:]
    if r.returncode != 0:
        # flaky under load? run once more
        r = sh("%s /verif/tools/baseline_compare.py %s" % (PY, wt))
        res["suite_rc_retry"] = r.returncode
        res["suite_tail_retry"] = r.stdout[-800:]
    res["confirmed"] = (
        res["demo_with_patch_rc"] != 0
        and res["demo_without_patch_rc"] == 0
        and (res["suite_rc"] == 0 or res.get("suite_rc_retry") == 0)
    )
finally:
    sh("git -C /repo worktree remove --force %s" % wt)
    shutil.rmtree(wt, ignore_errors=True)
print(json.dumps(res, indent=1))
if res.get("confirmed"):
    os.makedirs(dst, exist_ok=True)
    for f in os.listdir(src):
        if f in ("patch.diff", "demo_test.py", "demo.py", "notes.md"):
            shutil.copy(os.path.join(src, f), os.path.join(dst, f))
    meta = {
        "property": prop,
        "needs": "see notes.md (written by the sub-agent that produced the change)",
        "confirmed_by": "tools/seed_verify.py: demo fails with patch (rc %s), passes without (rc 0), BASELINE stable_pass all pass with patch" % res["demo_with_patch_rc"],
        "repo_head": res["repo_head"],
        "commands": [
            "git apply patch.diff (scratch worktree)",
            demo_cmd(src),
            "tools/baseline_compare.py <worktree>",
        ],
        "detected_by": None,
    }
    with open(os.path.join(dst, "meta.json"), "w") as f:
        json.dump(meta, f, indent=1)
sys.exit(0 if res.get("confirmed") else 1)
