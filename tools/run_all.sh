#!/bin/bash
# run registered checks at the given tier on the current tree; print one line per property
# usage: run_all.sh [quick|thorough] [Cxx ...]
tier=${1:-quick}; shift
cd "$(dirname "$0")/.."
ids="$@"
[ -z "$ids" ] && ids=$(python3 -c "import json; print(' '.join(c['property_id'] for c in json.load(open('MANIFEST.json'))['checks']))")
for id in $ids; do
  s=$(date +%s)
  out=$(./check $id $tier 2>&1); rc=$?
  e=$(( $(date +%s) - s ))
  echo "$id rc=$rc ${e}s $(echo "$out" | head -1 | cut -c1-200)"
  echo "$out" | grep -E "^(VIOLATION|HARNESS-ERROR|INCONCLUSIVE|KNOWN-FINDING)" | cut -c1-220
done
