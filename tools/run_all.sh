#!/bin/bash
# run every registered check at the given tier on the current tree; print one line per property
tier=${1:-quick}
cd /verif
for id in $(python3 -c "import json; print(' '.join(c['property_id'] for c in json.load(open('MANIFEST.json'))['checks']))"); do
  s=$(date +%s)
  out=$(./check $id $tier 2>&1); rc=$?
  e=$(( $(date +%s) - s ))
  echo "$id rc=$rc ${e}s $(echo "$out" | head -1 | cut -c1-200)"
  echo "$out" | grep -E "^(VIOLATION|HARNESS-ERROR|INCONCLUSIVE|KNOWN-FINDING)" | cut -c1-220
done
