#!/usr/bin/env python3
"""Run the pinned test suite on a source tree and compare with BASELINE.json stable_pass.
usage: baseline_compare.py [repo_dir]   (default /repo)"""
import json, signal, subprocess, sys, tempfile, os, xml.etree.ElementTree as ET


def _sigint_default():
    # background jobs of a non-interactive shell inherit SIGINT=ignored, which breaks the suite's KeyboardInterrupt tests
    signal.signal(signal.SIGINT, signal.SIG_DFL)

repo = sys.argv[1] if len(sys.argv) > 1 else "/repo"
base = json.load(open("/root/.vp/BASELINE.json"))
out = tempfile.mktemp(suffix=".xml")
env = dict(os.environ, PYTHONPATH=os.path.join(repo, "src"))
subprocess.run(["/venv/bin/python", "-m", "pytest", "-q", "-p", "no:cacheprovider", "--timeout=900", "--continue-on-collection-errors", "--junitxml=" + out, "-x" if "-x" in sys.argv else "-q"], cwd=repo, env=env, stdout=subprocess.DEVNULL, stderr=subprocess.DEVNULL, preexec_fn=_sigint_default)
passed = set()
for tc in ET.parse(out).getroot().iter("testcase"):
    if not any(c.tag in ("failure", "error", "skipped") for c in tc):
        passed.add(tc.get("classname") + "::" + tc.get("name"))
os.unlink(out)
want = set(base["stable_pass"])
missing = sorted(want - passed)
# flaky under machine load (subprocess timeouts, loopback port contention): re-run the missing ones on their own
for attempt in range(2):
    if not missing or len(missing) > 60:
        break
    ids = []
    for m in missing:
        cls, name = m.split("::", 1)
        parts = cls.split(".")
        # tests.test_x.TestY -> tests/test_x.py::TestY::name
        mod = []
        rest = []
        for p_ in parts:
            (rest if (p_[:1].isupper() and mod) else mod).append(p_)
        ids.append("/".join(mod) + ".py::" + "::".join(rest + [name]))
    out2 = tempfile.mktemp(suffix=".xml")
    subprocess.run(["/venv/bin/python", "-m", "pytest", "-q", "-p", "no:cacheprovider", "--timeout=900", "--junitxml=" + out2] + ids, cwd=repo, env=env, stdout=subprocess.DEVNULL, stderr=subprocess.DEVNULL, preexec_fn=_sigint_default)
    try:
        for tc in ET.parse(out2).getroot().iter("testcase"):
            if not any(c.tag in ("failure", "error", "skipped") for c in tc):
                passed.add(tc.get("classname") + "::" + tc.get("name"))
        os.unlink(out2)
    except Exception:
        pass
    missing = sorted(want - passed)
print("stable_pass:", len(want), "passed now:", len(passed), "missing:", len(missing))
for m in missing[:40]:
    print("  MISSING", m)
sys.exit(1 if missing else 0)
