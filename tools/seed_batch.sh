#!/bin/bash
# usage: seed_batch.sh try|verify <outroot> <suffix> ID...
#   try    : run the owning check against <outroot>/<ID>/<V>/patch.diff for V in A B C (non-invasive), results in /tmp/try-<suffix>/
#   verify : independent confirmation + storage as /verif/seeded/<ID>-<V><suffix>
mode=$1; root=$2; suf=$3; shift 3
for id in "$@"; do for v in A B C; do
  d=$root/$id/$v
  [ -f $d/patch.diff ] || continue
  if [ "$mode" = try ]; then
    mkdir -p /tmp/try-$suf; out=/tmp/try-$suf/$id-$v.json
    [ -f $out ] && continue
    python3 /verif/tools/seed_try.py $id $d/patch.diff > $out 2>&1
    echo "$id-$v exit=$(grep -o '"exit": [0-9]*' $out | cut -d' ' -f2) $(grep -o '"[a-z0-9_]*/[^"]*"' $out | tr '\n' ' ' | cut -c1-220) $(grep -c HARNESS-ERROR $out) harness-errors"
  else
    log=/tmp/svlogs/$id-$v$suf.log
    [ -f $log ] && grep -q '"confirmed"' $log && continue
    /venv/bin/python /verif/tools/seed_verify.py $id $d $id-$v$suf > $log 2>&1
    echo "$id-$v$suf $(grep -o '"confirmed": [a-z]*' $log)"
  fi
done; done
