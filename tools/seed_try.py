#!/usr/bin/env python3
"""Run a property's check against a seeded change WITHOUT touching /repo or /verif/evidence:
scratch worktree of /repo HEAD + patch, SYMX_SRC pointing at it, evidence/replays in a temp dir.

usage: seed_try.py <property> <patch.diff> [tier]   -> prints exit status and violated clauses (JSON)"""
import glob, json, os, shutil, subprocess, sys, tempfile
prop, patch = sys.argv[1], os.path.abspath(sys.argv[2])
tier = sys.argv[3] if len(sys.argv) > 3 else "quick"
wt = tempfile.mkdtemp(prefix="st-", dir="/tmp"); os.rmdir(wt)
tmp = tempfile.mkdtemp(prefix="stout-", dir="/tmp")
res = {"property": prop, "patch": patch, "tier": tier}
try:
    r = subprocess.run("git -C /repo worktree add -q --detach %s HEAD && git -C %s apply %s" % (wt, wt, patch), shell=True, capture_output=True, text=True)
    if r.returncode != 0:
        res["error"] = "patch does not apply: " + r.stderr[:300]
    else:
        env = dict(os.environ, SYMX_SRC=os.path.join(wt, "src"), SYMX_EVIDENCE_DIR=tmp, SYMX_REPLAY_DIR=tmp)
        r = subprocess.run(["./check", prop, tier], cwd="/verif", env=env, capture_output=True, text=True)
        res["exit"] = r.returncode
        res["summary"] = (r.stdout.strip().splitlines() or [""])[0][:200]
        res["other_lines"] = [l[:200] for l in r.stdout.splitlines() if l.startswith(("HARNESS-ERROR", "INCONCLUSIVE"))][:4]
        clauses = {}
        for f in glob.glob(os.path.join(tmp, "%s-*.json" % prop)):
            v = json.load(open(f))
            k = "%s/%s" % (v["harness"], v["clause"])
            clauses.setdefault(k, {"count": 0, "unit": v["unit"], "inputs": v["inputs"]})["count"] += 1
        res["clauses"] = clauses
finally:
    subprocess.run("git -C /repo worktree remove --force %s" % wt, shell=True, capture_output=True)
    shutil.rmtree(wt, ignore_errors=True); shutil.rmtree(tmp, ignore_errors=True)
print(json.dumps(res, indent=1))
