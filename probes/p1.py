import math
from anyio._backends._asyncio import CapacityLimiter

def setter_step(total: int, nborrow: int, nwait: int, new_total: int) -> bool:
    """
    pre: 0 <= total <= 4 and 0 <= nborrow <= 4 and 0 <= nwait <= 3 and 0 <= new_total <= 6
    pre: nwait == 0 or nborrow >= total
    post: _
    """
    lim = CapacityLimiter(total)
    # construct pre-state directly
    for i in range(nborrow):
        lim._borrowers.add(("b", i))
    import asyncio
    for i in range(nwait):
        lim._wait_queue[("w", i)] = asyncio.Event()
    before = len(lim._borrowers)
    lim.total_tokens = new_total
    after = len(lim._borrowers)
    granted = after - before
    # a permit is granted only when one is actually free
    return granted == 0 or after <= new_total
