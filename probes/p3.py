import anyio, sys
from vloop import VLoop
from xdrv import explore

def h(sym):
    d1 = sym.int("d1", 0, 5); d2 = sym.int("d2", 0, 5)
    async def main():
        with anyio.move_on_after(d1) as s:
            await anyio.sleep(d2)
        return s.cancelled_caught
    caught = VLoop().run(main())
    return caught == (d1 <= d2)
print(explore(h, budget_s=100))
