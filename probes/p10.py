import anyio, asyncio, itertools, sys
import anyio.itertools as ait
from vloop import VLoop
from xdrv import explore
L = 3
def h(sym):
    n = sym.int("n", 0, L)
    xs = [sym.int(f"x{i}", -5, 5) for i in range(L)][:n]
    sym.vars["xs"] = xs
    which = sym.int("fn", 0, 2)
    a = sym.int("a", -1, L+1); b = sym.int("b", -1, L+2); c = sym.int("c", -1, 3)
    aN = sym.bool("aN"); bN = sym.bool("bN"); cN = sym.bool("cN")
    A = None if aN else a; B = None if bN else b; C = None if cN else c
    async def collect(agen):
        return [x async for x in agen]
    async def main():
        if which == 0:
            try: exp = list(itertools.islice(list(xs), A, B, C)); eexc = None
            except Exception as e: exp = None; eexc = type(e)
            try: got = await collect(ait.islice(list(xs), A, B, C)); gexc = None
            except Exception as e: got = None; gexc = type(e)
            return exp == got and eexc == gexc
        elif which == 1:
            async def key(x): return x // 2
            exp = [(k, list(g)) for k, g in itertools.groupby(list(xs), lambda x: x // 2)]
            got = await collect(ait.groupby(list(xs), key))
            return exp == got
        else:
            if B is None or B < 0: return True
            try: exp = list(itertools.batched(list(xs), B)); eexc = None
            except Exception as e: exp = None; eexc = type(e)
            try: got = await collect(ait.batched(list(xs), B)); gexc = None
            except Exception as e: got = None; gexc = type(e)
            return exp == got and eexc == gexc
    return VLoop().run(main())
print(explore(h, budget_s=300))
