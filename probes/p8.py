import anyio, sys, asyncio
from anyio import CancelScope, TASK_STATUS_IGNORED
from vloop import VLoop
from xdrv import explore
class E(Exception): pass
def h(sym):
    pre = sym.int("pre", 0, 2)       # child sleeps before started()
    beh = sym.int("beh", 0, 3)       # 0 started then return, 1 raise before started, 2 return w/o started, 3 started then raise
    cleanup = sym.int("cleanup", 0, 2)  # on cancel: 0 re-raise, 1 raise E from cleanup, 2 shielded sleep then re-raise
    ct = sym.int("ct", 0, 4); cj = sym.int("cj", 0, 2)   # caller scope cancel instant
    post = sym.int("post", 0, 2)
    raised = []   # exceptions the child actually raised (non-cancel)
    out = {}
    async def child(*, task_status=TASK_STATUS_IGNORED):
        try:
            await anyio.sleep(pre)
            if beh == 1:
                e = E("early"); raised.append(e); raise e
            if beh == 2:
                return "ret"
            task_status.started("v")
            await anyio.sleep(post)
            if beh == 3:
                e = E("late"); raised.append(e); raise e
            return "done"
        except asyncio.CancelledError:
            if cleanup == 1:
                e = E("cleanup"); raised.append(e); raise e
            if cleanup == 2:
                with CancelScope(shield=True):
                    await anyio.sleep(1)
            raise
    async def main():
        lp = asyncio.get_running_loop()
        surfaced = []
        try:
            async with anyio.create_task_group() as tg:
                with CancelScope() as caller:
                    def fire(k=0):
                        if k < cj: lp.call_soon(fire, k+1); return
                        caller.cancel()
                    lp.call_at(ct, fire)
                    try:
                        out["start"] = await tg.start(child)
                    except E as e:
                        surfaced.append(e)
                    except RuntimeError as e:
                        out["rt"] = True
        except BaseExceptionGroup as eg:
            def leaves(g):
                for x in g.exceptions:
                    if isinstance(x, BaseExceptionGroup): yield from leaves(x)
                    else: yield x
            surfaced.extend(leaves(eg))
        return surfaced
    surfaced = VLoop().run(main())
    # every raised non-cancel exception surfaces exactly once
    ok = sorted(map(id, surfaced)) == sorted(map(id, raised))
    if not ok: print("LOST", [str(e) for e in raised], [str(e) for e in surfaced])
    return ok
print(explore(h, budget_s=300))
