import asyncio, heapq
from asyncio import base_events, events

class _Sel:
    def __init__(self, loop): self.loop = loop
    def select(self, timeout=None):
        if timeout is None:
            raise Deadlock()
        if timeout > 0:
            self.loop._vtime = self.loop._vtime + timeout
        return []
    def close(self): pass

class Deadlock(Exception): pass

class VTask(asyncio.Task):
    def __repr__(self): return "<VTask %s>" % self.get_name()

class VLoop(base_events.BaseEventLoop):
    def create_task(self, coro, *, name=None, context=None):
        t = VTask(coro, loop=self, name=name, context=context)
        return t

    def __init__(self):
        super().__init__()
        self._vtime = 0
        self._selector = _Sel(self)
        self._clock_resolution = 1
        self.cycles = 0
        self.steered = None
        self.set_exception_handler(self._on_exc)
    def _on_exc(self, loop, ctx):
        exc = ctx.get("exception")
        if exc is not None and not isinstance(exc, Exception) and self.steered is None:
            self.steered = exc
    def time(self): return self._vtime
    def __repr__(self): return '<VLoop>'
    def _process_events(self, evs): pass
    def _write_to_self(self): pass
    def run(self, coro, max_cycles=200):
        events._set_running_loop(self)
        try:
            task = self.create_task(coro)
            while not task.done():
                if not self._ready and not self._scheduled:
                    raise Deadlock()
                self._run_once()
                if self.steered is not None:
                    raise self.steered
                self.cycles += 1
                if self.cycles > max_cycles:
                    raise RuntimeError("cycle budget")
            return task.result()
        finally:
            events._set_running_loop(None)
            self._ready.clear(); self._scheduled.clear()
            self.close()
