import subprocess, z3
import xdrv
from crosshair.statespace import context_statespace
from crosshair.tracers import NoTracing
import anyio
from vloop import VLoop
pcs=[]
def h(sym):
    d1 = sym.int("d1", 0, 1000); d2 = sym.int("d2", 0, 1000)
    async def main():
        with anyio.move_on_after(d1) as s:
            await anyio.sleep(d2)
        return s.cancelled_caught
    caught = VLoop().run(main())
    ok = caught == (d1 <= d2)
    with NoTracing():
        pcs.append(z3.And(*context_statespace().solver.assertions()))
    return ok
print(xdrv.explore(h, budget_s=60))
# names are uniq-suffixed but stable across paths (d1_2, d2_3)
d1=z3.Int("d1_2"); d2=z3.Int("d2_3")
s=z3.Solver(); s.add(d1>=0,d1<=1000,d2>=0,d2<=1000, z3.Not(z3.Or(*pcs)))
print("z3 coverage residue:", s.check())
open("cov.smt2","w").write("(set-logic ALL)\n"+s.to_smt2())
r=subprocess.run(["cvc5","cov.smt2"],capture_output=True,text=True,timeout=60); print("cvc5:", r.stdout.strip(), r.stderr.strip()[:100])
# pairwise disjointness
dis = all(z3.Solver().check(z3.And(pcs[i],pcs[j]))==z3.unsat for i in range(len(pcs)) for j in range(i))
print("pairwise disjoint:", dis)
