import anyio, asyncio
from vloop import VLoop, VTask
from xdrv import explore
class ELoop(VLoop):
    def __init__(self):
        super().__init__()
        self.set_task_factory(asyncio.create_eager_task_factory(VTask))
    def create_task(self, coro, *, name=None, context=None):
        return self._task_factory(self, coro, name=name, context=context)
def h(sym):
    d1 = sym.int("d1", 0, 5); d2 = sym.int("d2", 0, 5)
    res = {}
    async def child():
        with anyio.move_on_after(d1) as s:
            await anyio.sleep(d2)
        res["c"] = s.cancelled_caught
    async def main():
        async with anyio.create_task_group() as tg:
            tg.start_soon(child)
            t = asyncio.get_running_loop().create_task(child())   # eager-started native task
            await t
        return res["c"]
    caught = ELoop().run(main())
    return caught == (d1 <= d2)
print(explore(h, budget_s=100))
