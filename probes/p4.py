import anyio, sys
from anyio import Lock, CancelScope
from vloop import VLoop
from xdrv import explore
N = int(sys.argv[1]) if len(sys.argv) > 1 and sys.argv[1].isdigit() else 2
T = 1000
def h(sym):
    s = [sym.int(f"s{i}", 0, T) for i in range(N)]
    hold = [sym.int(f"h{i}", 0, T) for i in range(N)]
    c = [sym.int(f"c{i}", 0, T+1) for i in range(N)]
    J = [sym.int(f'j{i}', 0, 2) for i in range(N)]
    native = [sym.bool(f'n{i}') for i in range(N)]
    tasks = {}
    holders = []; viol = []; order_wait = []; order_got = []
    async def worker(i, lock, scope):
        import asyncio
        tasks[i] = asyncio.current_task()
        with scope:
            await anyio.sleep(s[i])
            order_wait.append(i)
            try:
                await lock.acquire()
            except BaseException:
                order_wait.remove(i)
                raise
            order_got.append(i)
            holders.append(i)
            if len(holders) > 1: viol.append(("mutex", list(holders)))
            try:
                await anyio.sleep(hold[i])
            finally:
                holders.remove(i)
                lock.release()
    async def main():
        lock = Lock()
        scopes = [CancelScope() for _ in range(N)]
        loop = anyio.get_cancelled_exc_class  # noqa
        import asyncio
        lp = asyncio.get_running_loop()
        async with anyio.create_task_group() as tg:
            for i in range(N):
                def fire(i=i, k=0):
                    if k < J[i]:
                        lp.call_soon(fire, i, k+1); return
                    if native[i]:
                        if i in tasks: tasks[i].cancel()
                    else:
                        scopes[i].cancel()
                lp.call_at(c[i], fire)
                tg.start_soon(worker, i, lock, scopes[i])
        st = lock.statistics()
        return (not lock.locked()) and st.tasks_waiting == 0
    ok = VLoop().run(main())
    return ok and not viol
r = explore(h, budget_s=600)
print(r)
