import subprocess, tempfile, os
import xdrv
from crosshair.statespace import context_statespace
from crosshair.tracers import NoTracing
import anyio
from vloop import VLoop
dumps=[]
def h(sym):
    d1 = sym.int("d1", 0, 5); d2 = sym.int("d2", 0, 5)
    async def main():
        with anyio.move_on_after(d1) as s:
            await anyio.sleep(d2)
        return s.cancelled_caught
    caught = VLoop().run(main())
    ok = caught == (d1 <= d2)
    with NoTracing():
        dumps.append(context_statespace().solver.to_smt2())
    return ok
print(xdrv.explore(h, budget_s=60))
for i,d in enumerate(dumps[:6]):
    p=f"/tmp/probe/pc{i}.smt2"; open(p,"w").write(d)
    r1=subprocess.run(["cvc5", p],capture_output=True,text=True,timeout=30)
    r2=subprocess.run(["z3", p],capture_output=True,text=True,timeout=30)
    print(i, "cvc5:", r1.stdout.strip()[:60], r1.stderr.strip()[:80], "| z3-4.8:", r2.stdout.strip()[:40])
print(dumps[0][:600])
