import anyio, sys, asyncio
from anyio.functools import lru_cache, lru_cache_items
from vloop import VLoop
from xdrv import explore
NC = int(sys.argv[1]) if len(sys.argv) > 1 and sys.argv[1].isdigit() else 3
def h(sym):
    maxsize = sym.int("maxsize", 1, 2)
    keys = [sym.int(f"k{i}", 0, 2) for i in range(NC)]
    st = [sym.int(f"s{i}", 0, 3) for i in range(NC)]
    dur = [sym.int(f"d{i}", 0, 3) for i in range(3)]
    running = {}; viol = []; results = {}
    async def main():
        calls = [0]
        @lru_cache(maxsize=maxsize)
        async def f(k):
            running[k] = running.get(k, 0) + 1
            if running[k] > 1: viol.append(("double-flight", k))
            try:
                await anyio.sleep(dur[k])
            finally:
                running[k] -= 1
            return k * 10
        async def caller(i):
            await anyio.sleep(st[i])
            try:
                results[i] = await f(keys[i])
            except KeyError as e:
                viol.append(("internal KeyError", i))
        async with anyio.create_task_group() as tg:
            for i in range(NC):
                tg.start_soon(caller, i)
        for i in range(NC):
            if results.get(i) != keys[i] * 10: viol.append(("value", i))
        entries = lru_cache_items.get()[f]
        retained = sum(1 for v in entries.values() if v[1] is None)
        if retained > maxsize: viol.append(("retained", retained))
        if f.cache_info().currsize != retained: viol.append(("currsize", f.cache_info().currsize, retained))
        return True
    VLoop().run(main())
    if viol: print("VIOL", viol)
    return not viol
print(explore(h, budget_s=300))
