import sys
from xdrv import explore, Sym
from crosshair.core import proxy_for_type
from crosshair.tracers import NoTracing
from anyio.streams.buffered import BufferedByteReceiveStream
from anyio import EndOfStream, IncompleteRead, DelimiterNotFound
from anyio.abc import ByteReceiveStream, ObjectReceiveStream

class Src(ObjectReceiveStream):
    def __init__(self, chunks): self.chunks = list(chunks)
    async def receive(self):
        if not self.chunks: raise EndOfStream
        return self.chunks.pop(0)
    async def aclose(self): pass

def run(coro):
    try:
        coro.send(None)
    except StopIteration as e:
        return e.value
    raise AssertionError("suspended")

L = int(sys.argv[1]) if len(sys.argv) > 1 else 4
def h(sym):
    data = proxy_for_type(bytes, "data")
    sym.vars["data"] = data
    if len(data) > L: return True
    cut = sym.int("cut", 0, L)
    if cut > len(data): return True
    n = sym.int("n", 0, L+1)
    chunks = [c for c in (data[:cut], data[cut:]) if len(c)]
    s = BufferedByteReceiveStream(Src(chunks))
    try:
        out = run(s.receive_exactly(n))
    except IncompleteRead:
        return n > len(data)
    return out == data[:n] and n <= len(data) and s.buffer + b"".join(s.receive_stream.chunks) == data[n:]
print(explore(h, budget_s=120))
