import sys, time
import crosshair.statespace as ss
calls = [0, 0.0]
orig = ss.solver_is_sat
def counted(solver, *a):
    t=time.perf_counter()
    try: return orig(solver, *a)
    finally:
        calls[0]+=1; calls[1]+=time.perf_counter()-t
ss.solver_is_sat = counted
seen=set()
mon = sys.monitoring
TID = mon.PROFILER_ID
mon.use_tool_id(TID, "symx")
def on_start(code, off):
    if code.co_filename.startswith("/repo/src/anyio"):
        seen.add((code.co_filename[len("/repo/src/"):], code.co_qualname))
    return mon.DISABLE
mon.register_callback(TID, mon.events.PY_START, on_start)
mon.set_events(TID, mon.events.PY_START)
import p3
print(calls, len(seen)); print(sorted(seen)[:12])
# smt2 dump + cvc5
