import sys
from xdrv import explore, Sym
from crosshair.core import proxy_for_type
from anyio.streams.buffered import BufferedByteReceiveStream
from anyio import EndOfStream, IncompleteRead, DelimiterNotFound
from p5 import Src, run
L = int(sys.argv[1]) if len(sys.argv) > 1 else 4
def h(sym):
    data = proxy_for_type(bytes, "data"); sym.vars["data"] = data
    delim = proxy_for_type(bytes, "delim"); sym.vars["delim"] = delim
    if len(data) > L or not (1 <= len(delim) <= 2): return True
    c1 = sym.int("c1", 0, L); c2 = sym.int("c2", 0, L)
    if not (c1 <= c2 <= len(data)): return True
    mb = sym.int("mb", 0, L+1)
    chunks = [c for c in (data[:c1], data[c1:c2], data[c2:]) if len(c)]
    s = BufferedByteReceiveStream(Src(chunks))
    idx = data.find(delim)
    try:
        out = run(s.receive_until(delim, mb))
    except IncompleteRead:
        return idx < 0 and s.buffer == data
    except DelimiterNotFound:
        # only if the delimiter is absent from the first max_bytes bytes
        return data[:mb].find(delim) < 0 and s.buffer + b"".join(s.receive_stream.chunks) == data
    return idx >= 0 and out == data[:idx] and s.buffer + b"".join(s.receive_stream.chunks) == data[idx+len(delim):]
print(explore(h, budget_s=300))
