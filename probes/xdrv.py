"""Prototype: exhaustive symbolic path driver on top of CrossHair's StateSpace."""
import sys, time, collections, traceback
import z3
from crosshair.core import Patched, ExceptionFilter, deep_realize, realize
from crosshair.condition_parser import condition_parser
from crosshair.options import DEFAULT_OPTIONS, AnalysisKind
from crosshair.statespace import (RootNode, StateSpace, StateSpaceContext, CallAnalysis,
    VerificationStatus, context_statespace)
from crosshair.tracers import COMPOSITE_TRACER, NoTracing, ResumedTracing
from crosshair.util import IgnoreAttempt, UnexploredPath, NotDeterministic
from crosshair.libimpl.builtinslib import SymbolicInt, SymbolicBool
import crosshair.core_and_libs  # registers patches

class Sym:
    """factory for constrained symbolic inputs, used inside harness (tracing on)"""
    def __init__(self): self.vars = {}
    def int(self, name, lo, hi):
        with NoTracing():
            space = context_statespace()
            v = SymbolicInt(name + space.uniq())
            space.add(v.var >= lo); space.add(v.var <= hi)
        self.vars[name] = v
        return v
    def bool(self, name):
        with NoTracing():
            space = context_statespace()
            v = SymbolicBool(name + space.uniq())
        self.vars[name] = v
        return v

def explore(harness, max_paths=100000, budget_s=60, per_path_s=10):
    root = RootNode()
    stats = collections.Counter()
    t0 = time.process_time()
    cex = None
    exhausted = False
    for i in range(max_paths):
        now = time.process_time()
        if now - t0 > budget_s: break
        space = StateSpace(execution_deadline=now + per_path_s, model_check_timeout=per_path_s/2, search_root=root)
        with condition_parser([AnalysisKind.PEP316]), Patched(), COMPOSITE_TRACER, NoTracing(), StateSpaceContext(space):
            status = None
            try:
                sym = Sym()
                from crosshair.libimpl.builtinslib import ModelingDirector, RealBasedSymbolicFloat
                space.extra(ModelingDirector).global_representations[float] = RealBasedSymbolicFloat
                with ExceptionFilter() as ef, ResumedTracing():
                    ok = harness(sym)
                    ok = bool(ok)   # forks if symbolic
                if ef.user_exc is not None:
                    exc, stack = ef.user_exc
                    if isinstance(exc, NotDeterministic): raise NotDeterministic
                    with ResumedTracing():
                        model = {k: deep_realize(v) for k, v in sym.vars.items()}
                    cex = ("exception", repr(exc), model, "".join(traceback.format_list(stack)[-6:]) if stack else "")
                    status = VerificationStatus.REFUTED
                elif ef.ignore:
                    status = None; stats["ignored"] += 1
                elif not ok:
                    with ResumedTracing():
                        model = {k: deep_realize(v) for k, v in sym.vars.items()}
                    cex = ("false", None, model, "")
                    status = VerificationStatus.REFUTED
                else:
                    status = VerificationStatus.CONFIRMED
            except IgnoreAttempt:
                status = None; stats["ignored"] += 1
            except UnexploredPath as e:
                status = VerificationStatus.UNKNOWN; stats["unknown:" + type(e).__name__] += 1
                if "-v" in sys.argv: traceback.print_exc()
            stats[str(status)] += 1
            _a, exhausted = space.bubble_status(CallAnalysis(status))
        if cex or exhausted: break
    return dict(paths=i+1, exhausted=exhausted, cex=cex, stats=dict(stats), cpu_s=round(time.process_time()-t0,2), tree=root.stats() if hasattr(root,'stats') else None)
